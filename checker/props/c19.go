package props

import (
	"fmt"
	"go/constant"
	"go/token"
	"go/types"
	"strings"

	"fsverif/eng"

	"golang.org/x/tools/go/ssa"
)

func init() {
	register("C19", "Structural clauses of metadata-only transfer, decided on all paths of the receive loop: the id counter advances for every announced entry including the skipped listing-file name (finding F1, fixed); in metadata mode every announced entry other than the listing file's own name is framed into the buffer before the loop continues; a frame is alloc(size+4) with the 32-bit little-endian size written to the first four bytes and the stat marshalled (checked) into the rest of the same slice; ids are registered only for selected regular files; an entry the selector rejected is never forwarded to the disk writer, pending ancestors are replayed before a selected entry and the pending list is cleared; the listing file is written only after the checked group wait, after removing any previous entry of that name, with write and close checked. The pending-ancestors stack top is inspected in every iteration before anything is pushed. An announced entry named like the listing file is neither forwarded nor registered nor framed into the listing; push/pop/clear of the ancestor stack do what their names say and the unwinding loop pops. buffer.alloc(n) hands out exactly n bytes that are part of b.chunks, extending only the last chunk in place (read from and written back to slot len-1, under l+n <= cap) and appending otherwise. With a non-empty list pop shortens it and peek reports its top; the unwinding loop pops exactly while the top is not the entry's parent directory. A fresh chunk is made only for requests not larger than its constant capacity (the oversize threshold is not above the chunk size). Does not decide the remaining chunk arithmetic of the buffer, the ancestor stack for all tree shapes, or removal of stale entries.", runC19)
}

func runC19(c *Ctx) {
	r07_1(c, "R19.1")
	r19_2(c, "R19.2")
	r19_3(c, "R19.3")
	r07_2(c, "R19.4")
	r19_5(c, "R19.5")
	r19_6(c, "R19.6")
	r19_7(c, "R19.7")
	r19_8(c, "R19.8")
	r19_9(c, "R19.9")
	r19_10(c, "R19.10")
}

// R19.9: the listing file's own name is never taken from the sender.
//
// In metadata mode an announced entry named like the listing file is skipped:
// forwarded to nobody, registered for no content request. Without the skip
// the sender could plant the file the receiver is about to write (or have it
// written and then overwritten).
func r19_9(c *Ctx, rule string) {
	c.R.Rule(rule, "in metadata mode an announced entry whose path is the listing file's name reaches no forward to the disk writer, no registration in receiver.files and no record in the listing buffer in its iteration")
	m := getMetaLoop(c, rule)
	if m == nil {
		return
	}
	x := c.explorer(m.loop)
	var nameTests []string
	eng.Instrs(m.loop, func(in ssa.Instruction) {
		bo, ok := in.(*ssa.BinOp)
		if !ok || (bo.Op != token.EQL && bo.Op != token.NEQ) {
			return
		}
		for _, y := range []ssa.Value{bo.X, bo.Y} {
			if s, isS := eng.ConstString(y); isS && s == ".fsutil-metadata" {
				k := x.KeyAtEntry(bo)
				if bo.Op == token.NEQ {
					k = "!" + k
				}
				nameTests = append(nameTests, k)
			}
		}
	})
	base := c.name(m.loop)
	if len(nameTests) == 0 {
		c.R.Fail(rule, base+"/listing-name-skipped", c.pos(m.recv), "the receive loop never compares an announced path with the listing file's name: the sender can announce \".fsutil-metadata\" and have it created in the destination before the listing is written over it")
		return
	}
	as := map[string]bool{}
	for k, v := range m.pins {
		if strings.Contains(k, ".fsutil-metadata") {
			continue
		}
		as[k] = v
	}
	// (m.pins assume "not the listing name" for the other rules: here the opposite)
	for k := range as {
		for _, nt := range nameTests {
			if strings.TrimPrefix(nt, "!") == strings.TrimPrefix(k, "!") {
				delete(as, k)
			}
		}
	}
	for _, nt := range nameTests {
		neg := strings.HasPrefix(nt, "!")
		as[strings.TrimPrefix(nt, "!")] = !neg
	}
	isUse := func(in ssa.Instruction) bool {
		if c.P.IsCallTo(in, "fsutil.(*dynamicWalker).update") {
			a := in.(ssa.CallInstruction).Common().Args
			if k, ok := a[len(a)-1].(*ssa.Const); ok && k.IsNil() {
				return false
			}
			return true
		}
		if mu, ok := in.(*ssa.MapUpdate); ok && isFieldLoad(mu.Map, "fsutil.receiver.files") {
			return true
		}
		// ... nor framed into the listing: the listing has no record of itself
		if m.alloc != nil && in == ssa.Instruction(m.alloc) {
			return true
		}
		return false
	}
	ex := c.explorer(m.loop)
	ex.From = m.recv
	ex.Assume = as
	ex.Barrier = func(in ssa.Instruction, st *eng.State) bool { return in == ssa.Instruction(m.recv) }
	ex.Target = func(in ssa.Instruction, st *eng.State) bool { return isUse(in) }
	ex.StopAtTarget = true
	h := ex.Run()
	switch {
	case ex.Exhausted:
		c.R.Undecided(rule, base+"/listing-name-skipped", c.pos(m.recv), "state limit")
	case len(h) > 0:
		c.R.Fail(rule, base+"/listing-name-skipped", c.pos(h[0].Instr), "an announced entry named like the listing file is forwarded, registered or framed into the listing; path "+eng.BlockTrace(m.loop, h[0].Trace))
	default:
		c.R.OK(rule, base+"/listing-name-skipped", c.pos(m.recv), "an entry named like the listing file reaches no forward and no registration")
	}
}

// R19.10: the pending-ancestors stack is a stack.
//
// The replay rules (R19.5, R19.8) speak of push, pop, peek and clear by name;
// what the four do is small enough to read: push appends its argument, pop
// and clear shrink the list, peek returns its last element, and the unwinding
// loop pops (it makes progress).
func r19_10(c *Ctx, rule string) {
	c.R.Rule(rule, "stack.push stores append(items, v); pop stores a shorter re-slice of items; clear stores items[:0] or nil; peek returns items[len-1]; the unwinding loop of the receive loop contains a pop")
	m := getMetaLoop(c, rule)
	if m == nil {
		return
	}
	find := func(suffix string) *ssa.Function {
		var out *ssa.Function
		eng.Instrs(m.loop, func(in ssa.Instruction) {
			if call, ok := in.(*ssa.Call); ok {
				n := c.P.CalleeName(call)
				if strings.Contains(n, "stack") && strings.HasSuffix(n, suffix) {
					if f := eng.EffCallee(call); f != nil {
						out = f
					}
				}
			}
		})
		return out
	}
	itemsStores := func(f *ssa.Function) []*ssa.Store {
		var out []*ssa.Store
		eng.InstrsShallow(f, func(in ssa.Instruction) {
			if st, ok := in.(*ssa.Store); ok {
				if fa, isFA := st.Addr.(*ssa.FieldAddr); isFA && strings.HasSuffix(eng.FieldOwnerName(fa.X.Type(), fa.Field), ".items") {
					out = append(out, st)
				}
			}
		})
		return out
	}
	push, pop, clear := find(".push"), find(".pop"), find(".clear")
	if push == nil || pop == nil || clear == nil {
		c.R.Undecided(rule, c.name(m.loop)+"/stack-operations", c.pos(m.recv), "the pending-ancestors list is not kept through stack.push/pop/clear: shape not interpreted")
		return
	}
	okPush := false
	for _, st := range itemsStores(push) {
		if call, ok := st.Val.(*ssa.Call); ok && c.P.CalleeName(call) == "builtin:append" {
			if c.DerivesFrom(call.Call.Args[1], func(v ssa.Value) bool { _, isP := v.(*ssa.Parameter); return isP }, 5) {
				okPush = true
			}
		}
	}
	c.R.Check(okPush, rule, "fsutil.stack.push/appends", c.P.Pos(push.Pos()), "push appends its argument", "stack.push does not append its argument to the list: an unselected directory is never kept, a selected file below it arrives without its parent")
	shrinks := func(f *ssa.Function) bool {
		for _, st := range itemsStores(f) {
			if sl, ok := st.Val.(*ssa.Slice); ok && sl.High != nil {
				return true
			}
			if k, ok := st.Val.(*ssa.Const); ok && k.IsNil() {
				return true
			}
		}
		return false
	}
	c.R.Check(shrinks(pop), rule, "fsutil.stack.pop/shrinks", c.P.Pos(pop.Pos()), "pop drops the last element", "stack.pop does not shorten the list: the unwinding loop of the receive loop never ends")
	c.R.Check(shrinks(clear), rule, "fsutil.stack.clear/empties", c.P.Pos(clear.Pos()), "clear empties the list", "stack.clear does not empty the list: replayed ancestors are replayed again for every later entry")
	// the unwinding loop pops
	popInCycle := false
	eng.Instrs(m.loop, func(in ssa.Instruction) {
		if call, ok := in.(*ssa.Call); ok && eng.EffCallee(call) == pop && call.Parent() != pop {
			if eng.InCycle(call.Block()) {
				popInCycle = true
			}
		}
	})
	c.R.Check(popInCycle, rule, c.name(m.loop)+"/unwinding-pops", c.pos(m.recv), "the unwinding loop pops", "no pop of the pending-ancestors stack lies in a loop: the unwinding loop inspects the same top element forever")
	// the emptiness tests have the right polarity: with a non-empty list pop
	// cannot return without having shortened it and peek cannot report "none"
	emptyPins := func(f *ssa.Function, x *eng.Explorer, empty bool) map[string]bool {
		return c.lenPins(f, x, empty, func(v ssa.Value) bool {
			o, _, _, ok := eng.LoadedFieldRaw(v)
			return ok && strings.HasSuffix(o, ".items")
		})
	}
	if peek := find(".peek"); peek != nil {
		for _, f := range []*ssa.Function{pop, peek} {
			x := c.explorer(f)
			pins := emptyPins(f, x, false)
			con := "fsutil.stack." + f.Name() + "/non-empty-yields-top"
			if len(pins) == 0 {
				c.R.OK(rule, con, c.P.Pos(f.Pos()), "no emptiness test of a shape this rule interprets")
				continue
			}
			x.Assume = pins
			isPop := f == pop
			x.Barrier = func(in ssa.Instruction, st *eng.State) bool {
				if !isPop {
					return false
				}
				for _, s := range itemsStores(f) {
					if in == ssa.Instruction(s) {
						return true
					}
				}
				return false
			}
			x.Target = func(in ssa.Instruction, st *eng.State) bool {
				r, ok := in.(*ssa.Return)
				if !ok || r.Parent() != f {
					return false
				}
				if isPop {
					return true // a return not preceded by the shrinking store
				}
				if len(r.Results) == 2 {
					if k, isK := r.Results[1].(*ssa.Const); isK && k.Value != nil && !constant.BoolVal(k.Value) {
						return true
					}
				}
				return false
			}
			x.StopAtTarget = true
			hits := x.Run()
			switch {
			case x.Exhausted:
				c.R.Undecided(rule, con, c.P.Pos(f.Pos()), "state limit")
			case len(hits) > 0:
				c.R.Fail(rule, con, c.pos(hits[0].Instr), "with a non-empty list stack."+f.Name()+" behaves as if it were empty (emptiness test inverted): the unwinding loop never ends or parked ancestors are lost")
			default:
				c.R.OK(rule, con, c.P.Pos(f.Pos()), "with a non-empty list the top element is returned"+map[bool]string{true: " and dropped", false: ""}[isPop])
			}
		}
	}
	// the unwinding loop stops at the parent: from the comparison of the
	// entry's parent directory with the path of the stack top, "different"
	// leads to a pop before anything is pushed, replayed or received, and
	// "same" leads to no pop
	stackCall := func(in ssa.Instruction, suffixes ...string) bool {
		call, ok := in.(ssa.CallInstruction)
		if !ok || !strings.Contains(c.P.CalleeName(call), "stack") {
			return false
		}
		for _, sfx := range suffixes {
			if strings.HasSuffix(c.P.CalleeName(call), sfx) {
				return true
			}
		}
		return false
	}
	var cmp *ssa.BinOp
	eng.InstrsShallow(m.loop, func(in ssa.Instruction) {
		b, ok := in.(*ssa.BinOp)
		if !ok || (b.Op != token.EQL && b.Op != token.NEQ) {
			return
		}
		isTop := func(v ssa.Value) bool {
			o, base, _, ok := eng.LoadedFieldRaw(v)
			if !ok || o != "fsutil.currentPath.path" {
				return false
			}
			if ex, isE := base.(*ssa.Extract); isE {
				if call, isC := ex.Tuple.(*ssa.Call); isC && stackCall(call, ".peek") {
					return true
				}
			}
			return c.DerivesFrom(base, func(y ssa.Value) bool {
				call, isC := y.(*ssa.Call)
				return isC && stackCall(call, ".peek")
			}, 4)
		}
		isParent := func(v ssa.Value) bool {
			return c.DerivesFrom(v, func(y ssa.Value) bool {
				return c.isCallValueTo(y, "path/filepath.Dir") || c.isCallValueTo(y, "path.Dir")
			}, 3)
		}
		if (isTop(b.X) && isParent(b.Y)) || (isTop(b.Y) && isParent(b.X)) {
			cmp = b
		}
	})
	if cmp == nil {
		c.R.OK(rule, c.name(m.loop)+"/unwinding-stops-at-parent", c.pos(m.recv), "no comparison of the entry's parent directory with the stack top of a shape this rule interprets")
		return
	}
	leaves := func(in ssa.Instruction) bool {
		return stackCall(in, ".push", ".clear") || c.P.IsCallTo(in, "(fsutil.Stream).RecvMsg", "fsutil.(*dynamicWalker).update")
	}
	run := func(same bool, barrier, target func(ssa.Instruction) bool) (bool, bool) {
		x := c.explorer(m.loop)
		x.From = cmp
		x.Assume = map[string]bool{x.RegKey(cmp): (cmp.Op == token.EQL) == same}
		x.Barrier = func(in ssa.Instruction, st *eng.State) bool { return in != ssa.Instruction(cmp) && barrier(in) }
		x.Target = func(in ssa.Instruction, st *eng.State) bool { return target(in) }
		x.StopAtTarget = true
		hits := x.Run()
		return len(hits) > 0, x.Exhausted
	}
	isPopCall := func(in ssa.Instruction) bool { return stackCall(in, ".pop") }
	skips, und1 := run(false, isPopCall, leaves)
	pops, und2 := run(true, leaves, isPopCall)
	con := c.name(m.loop) + "/unwinding-stops-at-parent"
	switch {
	case und1 || und2:
		c.R.Undecided(rule, con, c.pos(cmp), "state limit")
	case skips:
		c.R.Fail(rule, con, c.pos(cmp), "the stack top is kept although it is not the parent directory of the entry (comparison inverted?): a parked directory that is not an ancestor is replayed into the destination")
	case pops:
		c.R.Fail(rule, con, c.pos(cmp), "the stack top is dropped although it is the parent directory of the entry (comparison inverted?): a selected file arrives without its parent")
	default:
		c.R.OK(rule, con, c.pos(cmp), "the top is popped exactly while it is not the entry's parent directory")
	}
}

// R19.8: the pending-ancestors stack is unwound for every entry.
//
// An unselected directory is parked on the stack so that it can be replayed
// if something below it is selected. It must leave the stack as soon as an
// entry arrives that is not below it - every entry, also one that has the
// same parent as its predecessor (the predecessor may be the parked
// directory itself). So in one iteration the stack top is inspected before
// anything is pushed or replayed.
func r19_8(c *Ctx, rule string) {
	c.R.Rule(rule, "in the receive loop every push onto the pending-ancestors stack and every replay of it is preceded, in the same iteration, by the inspection of the stack top (peek/pop loop)")
	m := getMetaLoop(c, rule)
	if m == nil {
		return
	}
	// the stack's methods stay transparent helpers (they are not named here in
	// full): the explorer walks through them, the calls are recognised by suffix
	stackCall := func(in ssa.Instruction, suffixes ...string) bool {
		call, ok := in.(ssa.CallInstruction)
		if !ok {
			return false
		}
		n := c.P.CalleeName(call)
		if !strings.Contains(n, "stack") {
			return false
		}
		for _, sfx := range suffixes {
			if strings.HasSuffix(n, sfx) {
				return true
			}
		}
		return false
	}
	isPeek := func(in ssa.Instruction) bool { return stackCall(in, ".peek", ".pop") }
	isUse := func(in ssa.Instruction) bool { return stackCall(in, ".push") }
	np, nu := 0, 0
	eng.Instrs(m.loop, func(in ssa.Instruction) {
		if isPeek(in) {
			np++
		}
		if isUse(in) {
			nu++
		}
	})
	if np == 0 || nu == 0 {
		c.R.Undecided(rule, c.name(m.loop)+"/unwound-before-push", c.P.Pos(m.loop.Pos()), "the pending-ancestors stack is not used through stack.peek/pop/push: shape not interpreted")
		return
	}
	ok, hit, und := c.Precedes(m.loop, m.recv, nil, isPeek, isUse)
	switch {
	case und:
		c.R.Undecided(rule, c.name(m.loop)+"/unwound-before-push", c.pos(m.recv), "state limit")
	case !ok:
		c.R.Fail(rule, c.name(m.loop)+"/unwound-before-push", c.pos(hit.Instr), "an entry can be parked on the pending-ancestors stack without the stack having been unwound for it (the unwinding is skipped for some entries, e.g. when the parent did not change): a parked directory that is not an ancestor is replayed into the destination; path "+eng.BlockTrace(m.loop, hit.Trace))
	default:
		c.R.OK(rule, c.name(m.loop)+"/unwound-before-push", c.pos(m.recv), "the stack top is inspected in every iteration before anything is pushed")
	}
}

type metaLoop struct {
	loop    *ssa.Function
	recv    ssa.CallInstruction
	marshal *ssa.Call
	alloc   *ssa.Call
	sel     *ssa.Call
	pins    map[string]bool // metadata mode on, STAT with a stat, not the listing file's own name
}

// metaModeKeys finds every reading of "metadata mode is on" in fn (helpers
// included): the test `r.metadataOnly != nil` itself and loads of a local or
// captured variable whose only assignment is that test. It returns explorer
// keys mapped to the truth they have when the mode is ON, and whether every
// such variable is assigned exactly once.
func metaModeKeys(c *Ctx, fn *ssa.Function, x *eng.Explorer) (map[string]bool, bool) {
	keys := map[string]bool{}
	clean := true
	isTest := func(v ssa.Value) (on bool, ok bool) {
		bo, isB := v.(*ssa.BinOp)
		if !isB || (bo.Op != token.NEQ && bo.Op != token.EQL) {
			return false, false
		}
		k, isC := bo.Y.(*ssa.Const)
		if !isC || !k.IsNil() || !isFieldLoad(bo.X, "fsutil.receiver.metadataOnly") {
			return false, false
		}
		return bo.Op == token.NEQ, true
	}
	// a mode cell is a boolean variable (local, captured, or a field of the
	// loop's state object) that is assigned the test; it must be assigned once
	cellOn := func(id string) (on bool, ok bool) {
		stores := c.P.CellStores(id)
		for _, s := range stores {
			if o, isT := isTest(s.Val); isT {
				on, ok = o, true
			}
		}
		if ok && len(stores) != 1 {
			clean = false
			return false, false
		}
		return on, ok
	}
	eng.Instrs(fn, func(in ssa.Instruction) {
		v, isV := in.(ssa.Value)
		if !isV {
			return
		}
		if on, ok := isTest(v); ok {
			keys[x.KeyAtEntry(v)] = on
			return
		}
		u, isU := in.(*ssa.UnOp)
		if !isU || u.Op != token.MUL {
			return
		}
		if bt, isBasic := u.Type().Underlying().(*types.Basic); !isBasic || bt.Kind() != types.Bool {
			return
		}
		if id := c.P.CellID(u.X); id != "" {
			if on, ok := cellOn(id); ok {
				keys[x.KeyAtEntry(u)] = on
			}
		}
	})
	return keys, clean
}

func getMetaLoop(c *Ctx, rule string) *metaLoop {
	loop := recvLoop(c, rule)
	if loop == nil {
		return nil
	}
	m := &metaLoop{loop: loop, recv: mainRecv(c, loop), pins: map[string]bool{}}
	if m.recv == nil {
		c.R.Missing(rule, "main-loop RecvMsg")
		return nil
	}
	for _, call := range c.P.CallsTo(loop, "types.(*Stat).MarshalToSizedBufferVT", "types.(*Stat).MarshalToVT", "types.(*Stat).MarshalVT", "types.(*Stat).Marshal") {
		m.marshal, _ = call.(*ssa.Call)
	}
	for _, call := range c.P.CallsTo(loop, "fsutil.(*buffer).alloc") {
		m.alloc, _ = call.(*ssa.Call)
	}
	for _, call := range c.P.CallsTo(loop, "field:fsutil.receiver.metadataOnly") {
		m.sel, _ = call.(*ssa.Call)
	}
	x := c.explorer(loop)
	// the metadata-mode flag, however it is named and wherever it is kept
	mk, _ := metaModeKeys(c, loop, x)
	for k, on := range mk {
		m.pins[k] = on
	}
	if nt := statNilTest(c, loop); nt != nil {
		m.pins[x.KeyAtEntry(nt.Cond)] = false
		if r := eng.Resolve(nt.Cond); r != nt.Cond {
			m.pins[x.KeyAtEntry(r)] = false // the test inside a predicate helper
		}
	}
	if k, site := packetTypeTestKey(c, loop, "PACKET_STAT"); site != nil {
		m.pins[k] = true
	}
	for _, n := range []string{"PACKET_ERR", "PACKET_DATA", "PACKET_FIN", "PACKET_REQ"} {
		if k, site := packetTypeTestKey(c, loop, n); site != nil {
			m.pins[k] = false
		}
	}
	// path == metadataPath
	eng.Instrs(loop, func(in ssa.Instruction) {
		bo, ok := in.(*ssa.BinOp)
		if !ok || (bo.Op != token.EQL && bo.Op != token.NEQ) {
			return
		}
		if s, isS := eng.ConstString(bo.Y); isS && s == ".fsutil-metadata" {
			m.pins[x.KeyAtEntry(bo)] = bo.Op == token.NEQ
		}
	})
	// representable path
	eng.Instrs(loop, func(in ssa.Instruction) {
		bo, ok := in.(*ssa.BinOp)
		if !ok || (bo.Op != token.EQL && bo.Op != token.NEQ) {
			return
		}
		if c.isCallValueTo(bo.X, "path/filepath.ToSlash") && isFieldLoad(bo.Y, "types.Stat.Path") {
			m.pins[x.KeyAtEntry(bo)] = bo.Op == token.EQL
		}
	})
	return m
}

func r19_2(c *Ctx, rule string) {
	c.R.Rule(rule, "in metadata mode every iteration that received a STAT with a stat (other than the listing file's own name) passes alloc and a checked marshal of that stat before the next RecvMsg or a success return")
	m := getMetaLoop(c, rule)
	if m == nil {
		return
	}
	base := c.name(m.loop)
	if m.marshal == nil || m.alloc == nil {
		c.R.Fail(rule, base+"/records", c.P.Pos(m.loop.Pos()), "the receive loop no longer frames received stats into the metadata buffer (buffer.alloc + Stat marshal)")
		return
	}
	chk := c.checkedCallPred(c.P.CalleeName(m.marshal))
	ex := c.explorer(m.loop)
	ex.From = m.recv
	as := map[string]bool{}
	for k, v := range m.pins {
		as[k] = v
	}
	key, _, _ := c.errValueOf(m.recv)
	as["("+key+"==nil)"] = true
	ex.Assume = as
	ex.Barrier = func(in ssa.Instruction, st *eng.State) bool { return chk(in) }
	ex.Target = func(in ssa.Instruction, st *eng.State) bool {
		return in == ssa.Instruction(m.recv) || ex.IsSuccessReturn(in, st) || c.P.IsCallTo(in, "fsutil.(*dynamicWalker).update")
	}
	ex.StopAtTarget = true
	h := ex.Run()
	switch {
	case ex.Exhausted:
		c.R.Undecided(rule, base+"/every-entry-recorded", c.pos(m.recv), "state limit")
	case len(h) > 0:
		c.R.Fail(rule, base+"/every-entry-recorded", c.pos(h[0].Instr), "in metadata mode an announced entry can be passed on (or the loop continue) without being recorded in the listing; path "+eng.BlockTrace(m.loop, h[0].Trace))
	default:
		c.R.OK(rule, base+"/every-entry-recorded", c.pos(m.marshal), "every announced entry is framed before the loop goes on")
	}
	c.ObPrecedes(rule, base+"/alloc-before-marshal", m.loop, nil, func(in ssa.Instruction) bool { return in == ssa.Instruction(m.alloc) }, func(in ssa.Instruction) bool { return in == ssa.Instruction(m.marshal) }, "buffer.alloc", "marshalling the stat")
	// recorded before the selector's verdict matters: the record is not under the selector
	if m.sel != nil {
		c.R.Check(!eng.Dominates(m.sel, m.marshal), rule, base+"/recorded-regardless-of-selection", c.pos(m.marshal), "the record is written before the selector is consulted", "the listing record is only written after the selector was consulted: unselected entries may be missing from the listing")
	}
	// nothing is recorded outside metadata mode
	off := map[string]bool{}
	x := c.explorer(m.loop)
	mk, clean := metaModeKeys(c, m.loop, x)
	for k, on := range mk {
		off[k] = !on
	}
	c.ObUnreachable(rule, base+"/only-in-metadata-mode", m.loop, off, func(in ssa.Instruction) bool { return in == ssa.Instruction(m.alloc) }, "recording a listing entry", "no metadata-only selector was given")
	// the flag is `r.metadataOnly != nil`, assigned once
	run := c.P.Encloser(m.loop)
	okFlag := len(mk) > 0 && clean
	c.R.Check(okFlag, rule, c.name(run)+"/mode-flag", c.P.Pos(run.Pos()), "metadata mode <=> a MetadataOnly selector was given", "the metadata-mode flag is not `r.metadataOnly != nil` (or is reassigned)")
}

func r19_3(c *Ctx, rule string) {
	c.R.Rule(rule, "frame format: dt = alloc(SizeVT()+4); LittleEndian.PutUint32(dt[0:4], uint32(size)); stat marshalled, checked, into dt[4:]")
	m := getMetaLoop(c, rule)
	if m == nil || m.marshal == nil || m.alloc == nil {
		if m != nil {
			c.R.Fail(rule, "frame", "-", "no buffer.alloc / marshal pair in the receive loop")
		}
		return
	}
	base := c.name(m.loop)
	// size
	var size *ssa.Call
	for _, call := range c.P.CallsTo(m.loop, "types.(*Stat).SizeVT") {
		size, _ = call.(*ssa.Call)
	}
	okAlloc := false
	if other, ok := eng.SumWithConst(m.alloc.Call.Args[1], 4); ok && size != nil && eng.SameValue(other, size) {
		okAlloc = true
	}
	c.R.Check(okAlloc, rule, base+"/frame-size", c.pos(m.alloc), "alloc(stat.SizeVT() + 4)", "the frame is not allocated as SizeVT()+4 bytes: the record overruns or leaves garbage")
	// prefix
	var put ssa.CallInstruction
	order := ""
	for _, call := range eng.Calls(m.loop) {
		n := c.P.CalleeName(call)
		if strings.HasPrefix(n, "(encoding/binary.") && strings.HasSuffix(n, ").PutUint32") {
			put, order = call, n
		}
	}
	if put == nil {
		c.R.Fail(rule, base+"/prefix", c.pos(m.alloc), "no 32-bit length prefix is written")
		return
	}
	c.R.Check(strings.Contains(order, "littleEndian"), rule, base+"/prefix-order", c.pos(put), "little-endian prefix", "the length prefix is not little-endian ("+order+"): readers of the listing file decode wrong record lengths")
	a := put.Common().Args
	sl, isSl := a[len(a)-2].(*ssa.Slice)
	okSl := false
	if isSl && sl.X == ssa.Value(m.alloc) {
		lo, okLo := int64(0), true
		if sl.Low != nil {
			lo, okLo = eng.ConstInt(sl.Low)
		}
		hi, okHi := eng.ConstInt(sl.High)
		okSl = okLo && okHi && lo == 0 && hi == 4
	}
	c.R.Check(okSl, rule, base+"/prefix-position", c.pos(put), "written to bytes [0:4] of the frame", "the prefix is not written to bytes [0:4] of the allocated frame")
	okVal := size != nil && c.DerivesFrom(a[len(a)-1], func(v ssa.Value) bool { return v == ssa.Value(size) }, 3)
	c.R.Check(okVal, rule, base+"/prefix-value", c.pos(put), "the prefix is the stat's encoded size", "the prefix value is not the stat's SizeVT()")
	// body
	b := m.marshal.Call.Args
	okBody := false
	if bs, isS := b[len(b)-1].(*ssa.Slice); isS && bs.X == ssa.Value(m.alloc) && bs.High == nil {
		if lo, ok := eng.ConstInt(bs.Low); ok && lo == 4 {
			okBody = true
		}
	}
	c.R.Check(okBody, rule, base+"/body-position", c.pos(m.marshal), "the stat is marshalled into frame[4:]", "the stat is not marshalled into bytes [4:] of the same frame")
	okStat := isFieldLoad(b[0], "types.Packet.Stat")
	okSizeStat := size != nil && isFieldLoad(size.Call.Args[0], "types.Packet.Stat")
	c.R.Check(okStat && okSizeStat, rule, base+"/same-stat", c.pos(m.marshal), "size and bytes are of the received stat", "the size and the marshalled bytes are not taken from the received stat")
	c.ObErrChecked(rule+"/checked", m.marshal)
	// recorded as announced: before the path is rewritten to the platform form
	for _, s := range fieldStoresIn(m.loop, "types.Stat.Path") {
		ex := c.explorer(m.loop)
		ex.From = s
		ex.Barrier = func(in ssa.Instruction, st *eng.State) bool { return in == ssa.Instruction(m.recv) }
		ex.Target = func(in ssa.Instruction, st *eng.State) bool { return in == ssa.Instruction(m.marshal) }
		ex.StopAtTarget = true
		c.R.Check(len(ex.Run()) == 0, rule, base+"/recorded-as-announced", c.pos(s), "the stat is recorded before its path is rewritten", "the stat is recorded after its path was rewritten to the platform form: the listing differs from what was announced")
	}
}

func r19_5(c *Ctx, rule string) {
	c.R.Rule(rule, "an entry the selector rejected is never forwarded in that iteration; pending ancestors are replayed from the stack before a selected entry and the stack is cleared")
	m := getMetaLoop(c, rule)
	if m == nil {
		return
	}
	base := c.name(m.loop)
	if m.sel == nil {
		c.R.Fail(rule, base+"/selector", c.P.Pos(m.loop.Pos()), "the receive loop does not consult the metadata-only selector")
		return
	}
	isUpd := c.callPred("fsutil.(*dynamicWalker).update")
	ex := c.explorer(m.loop)
	ex.From = m.sel
	rej := map[string]bool{c.reg(m.sel): false}
	for k, v := range m.pins {
		rej[k] = v
	}
	ex.Assume = rej
	ex.Barrier = func(in ssa.Instruction, st *eng.State) bool { return in == ssa.Instruction(m.recv) }
	ex.Target = func(in ssa.Instruction, st *eng.State) bool { return isUpd(in) }
	ex.StopAtTarget = true
	h := ex.Run()
	switch {
	case ex.Exhausted:
		c.R.Undecided(rule, base+"/unselected-not-forwarded", c.pos(m.sel), "state limit")
	case len(h) > 0:
		c.R.Fail(rule, base+"/unselected-not-forwarded", c.pos(h[0].Instr), "an entry the metadata-only selector rejected is forwarded to the disk writer; path "+eng.BlockTrace(m.loop, h[0].Trace))
	default:
		c.R.OK(rule, base+"/unselected-not-forwarded", c.pos(m.sel), "a rejected entry reaches no update in its iteration")
	}
	// a rejected directory is still parked for replay
	isPush := func(in ssa.Instruction) bool {
		call, ok := in.(ssa.CallInstruction)
		return ok && strings.HasSuffix(c.P.CalleeName(call), ".push") && strings.Contains(c.P.CalleeName(call), "stack")
	}
	ex2 := c.explorer(m.loop)
	ex2.From = m.sel
	as := map[string]bool{c.reg(m.sel): false}
	x := c.explorer(m.loop)
	for _, call := range c.P.CallsTo(m.loop, "(io/fs.FileMode).IsDir") {
		if cl, ok := call.(*ssa.Call); ok {
			as[x.KeyAtEntry(cl)] = true
		}
	}
	for _, call := range c.P.CallsTo(m.loop, "fsutil.(*Validator).HandleChange", "fsutil.(*Hardlinks).HandleChange") {
		k, _, _ := c.errValueOf(call)
		as["("+k+"==nil)"] = true
	}
	for k, v := range m.pins {
		as[k] = v
	}
	ex2.Assume = as
	ex2.Barrier = func(in ssa.Instruction, st *eng.State) bool { return isPush(in) }
	ex2.Target = func(in ssa.Instruction, st *eng.State) bool { return in == ssa.Instruction(m.recv) }
	ex2.StopAtTarget = true
	h2 := ex2.Run()
	tr := ""
	if len(h2) > 0 {
		tr = "; path " + eng.BlockTrace(m.loop, h2[0].Trace)
	}
	c.R.Check(len(h2) == 0 && !ex2.Exhausted, rule, base+"/rejected-directory-parked", c.pos(m.sel), "a rejected (valid) directory is pushed on the replay stack", "a directory the selector rejected is not kept for replay: a selected file below it arrives without its parent and the transfer fails or the tree is incomplete"+tr)
	// selected entry in metadata mode: clear before the final forward, replay loop present
	var final ssa.CallInstruction
	var replay ssa.CallInstruction
	for _, call := range c.P.CallsTo(m.loop, "fsutil.(*dynamicWalker).update") {
		a := call.Common().Args
		if k, ok := a[len(a)-1].(*ssa.Const); ok && k.IsNil() {
			continue
		}
		if c.DerivesFrom(a[len(a)-1], func(v ssa.Value) bool { return isFieldLoad(v, "fsutil.stack.items") }, 6) {
			replay = call
		} else {
			final = call
		}
	}
	if final == nil || replay == nil {
		c.R.Fail(rule, base+"/replay", c.P.Pos(m.loop.Pos()), "the receive loop lacks the replay of pending ancestors or the final forward")
		return
	}
	c.R.Check(eng.InCycle(replay.Block()), rule, c.siteName(replay)+"/loop", c.pos(replay), "every pending ancestor is replayed (loop over the stack)", "the replay is not a loop over the pending ancestors")
	isClear := func(in ssa.Instruction) bool {
		call, ok := in.(ssa.CallInstruction)
		return ok && strings.HasSuffix(c.P.CalleeName(call), ".clear") && strings.Contains(c.P.CalleeName(call), "stack")
	}
	on := map[string]bool{}
	for k, v := range m.pins {
		on[k] = v
	}
	c.ObPrecedes(rule, base+"/cleared-before-forward", m.loop, on, isClear, func(in ssa.Instruction) bool { return in == ssa.Instruction(final) }, "clearing the replayed ancestors", "forwarding the selected entry (metadata mode)")
	// replay precedes clear: from the clear call, the replay update is unreachable before the next RecvMsg
	var clr ssa.Instruction
	eng.Instrs(m.loop, func(in ssa.Instruction) {
		if isClear(in) {
			clr = in
		}
	})
	if clr != nil {
		ex3 := c.explorer(m.loop)
		ex3.From = clr
		ex3.Barrier = func(in ssa.Instruction, st *eng.State) bool { return in == ssa.Instruction(m.recv) }
		ex3.Target = func(in ssa.Instruction, st *eng.State) bool { return in == ssa.Instruction(replay) }
		ex3.StopAtTarget = true
		c.R.Check(len(ex3.Run()) == 0, rule, base+"/replay-before-clear", c.pos(clr), "ancestors are replayed before the list is cleared", "the pending list is cleared before it is replayed")
		c.ObPrecedes(rule, base+"/parents-before-entry", m.loop, on, func(in ssa.Instruction) bool { return in == clr }, func(in ssa.Instruction) bool { return in == ssa.Instruction(final) }, "the replay of pending ancestors", "forwarding the selected entry")
	}
	c.ObErrChecked(rule+"/checked", replay)
}

func r19_6(c *Ctx, rule string) {
	c.R.Rule(rule, "the listing file is written only in metadata mode, after the checked group wait, after removing any previous entry of that name; WriteTo and Close are checked")
	run := c.Fn(rule, "fsutil.(*receiver).run")
	if run == nil {
		return
	}
	base := c.name(run)
	var open ssa.CallInstruction
	for _, call := range c.P.CallsTo(run, "os.OpenFile", "os.Create") {
		open = call
	}
	if open == nil {
		c.R.Fail(rule, base+"/listing-file", c.P.Pos(run.Pos()), "receiver.run no longer writes the listing file")
		return
	}
	isOpen := func(in ssa.Instruction) bool { return in == ssa.Instruction(open) }
	c.ObPrecedes(rule, base+"/after-group-wait", run, nil, c.checkedCallPred("(*golang.org/x/sync/errgroup.Group).Wait"), isOpen, "the checked wait for the transfer goroutines", "creating the listing file")
	ok, why := dominatedByRemoveOfSamePath(c, open)
	c.R.Check(ok, rule, base+"/previous-removed", c.pos(open), "any previous entry of that name is removed first", "the listing file is opened without first removing an existing entry of that name ("+why+"): a symlink planted there redirects the write")
	parts, isJoin := c.joinParts(open.Common().Args[0])
	c.R.Check(isJoin && len(parts) == 2 && parts[0] == "field:fsutil.receiver.dest" && parts[1] == "c:.fsutil-metadata", rule, base+"/listing-path", c.pos(open), "dest/.fsutil-metadata", fmt.Sprintf("the listing file is not Join(dest, \".fsutil-metadata\") (%v)", parts))
	c.ObErrChecked(rule+"/checked", open)
	// only in metadata mode
	x := c.explorer(run)
	off := map[string]bool{}
	mk, _ := metaModeKeys(c, run, x)
	for k, on := range mk {
		off[k] = !on
	}
	if len(off) == 0 {
		c.R.Undecided(rule, base+"/only-in-metadata-mode", c.pos(open), "cannot find the metadata-mode flag in receiver.run")
	} else {
		c.ObUnreachable(rule, base+"/only-in-metadata-mode", run, off, isOpen, "writing the listing file", "no metadata-only selector was given")
	}
	// content
	wt := c.P.CallsTo(run, "fsutil.(*buffer).WriteTo")
	c.R.Exact(rule, "buffer.WriteTo calls in receiver.run", len(wt), 1)
	for _, call := range wt {
		c.ObErrChecked(rule+"/checked", call)
		c.R.Check(c.DerivesFrom(call.Common().Args[1], func(v ssa.Value) bool { return v == open.Value() }, 4), rule, c.siteName(call)+"/into-listing", c.pos(call), "the buffer is written into the listing file", "the metadata buffer is not written into the file that was opened")
	}
	// success return after the open is f.Close()'s result
	closes := map[string]bool{}
	for _, call := range c.P.CallsTo(run, "(*os.File).Close") {
		if cl, ok := call.(*ssa.Call); ok {
			closes[c.reg(cl)] = true
		}
	}
	ex := c.explorer(run)
	ex.From = open
	k, _, _ := c.errValueOf(open)
	ex.Assume = map[string]bool{"(" + k + "==nil)": true}
	ex.Target = func(in ssa.Instruction, st *eng.State) bool {
		if !ex.IsSuccessReturn(in, st) {
			return false
		}
		return !closes[ex.SourceKey(in.(*ssa.Return).Results[0], st)]
	}
	ex.StopAtTarget = true
	h := ex.Run()
	c.R.Check(len(h) == 0 && !ex.Exhausted && len(closes) > 0, rule, base+"/success-is-close", c.pos(open), "success is the result of closing the listing file", "receiver.run can return success without a checked close of the listing file")
	// the buffer written is the one the loop filled
	if loop := recvLoop(c, rule); loop != nil {
		// the cell (captured variable or field of the loop's state object) the
		// loop's buffer.alloc receiver is loaded from, and the one WriteTo's is
		var cellLoop, cellRun bool
		filled := map[string]bool{}
		for _, call := range c.P.CallsTo(loop, "fsutil.(*buffer).alloc") {
			if id := c.loadedCell(call.Common().Args[0]); id != "" {
				filled[id] = true
				cellLoop = true
			}
		}
		for _, call := range wt {
			if id := c.loadedCell(call.Common().Args[0]); id != "" && filled[id] && len(filled) == 1 {
				cellRun = true
			}
		}
		c.R.Check(cellLoop && cellRun, rule, base+"/same-buffer", c.P.Pos(run.Pos()), "the buffer written is the one the receive loop filled", "the buffer written to the listing file is not the one the receive loop filled")
	}
}

// R19.7: the metadata buffer hands out exactly the bytes asked for and writes
// every chunk out (the part of the chunk arithmetic that has a structural form).
func r19_7(c *Ctx, rule string) {
	c.R.Rule(rule, "buffer.alloc(n) returns a slice of exactly n bytes on every path - a fresh make([]byte, n), the first n bytes of a fresh chunk, or bytes [l, l+n) of the last chunk only when l+n <= cap - and the slice is part of b.chunks; WriteTo writes every chunk, checked, in order")
	al := c.Fn(rule, "fsutil.(*buffer).alloc")
	if al == nil {
		return
	}
	n := al.Params[len(al.Params)-1]
	base := c.name(al)
	k := 0
	eng.Instrs(al, func(in ssa.Instruction) {
		r, ok := in.(*ssa.Return)
		if !ok || r.Parent() != al {
			return // (returns of inlined helpers are not returns of alloc)
		}
		k++
		con := fmt.Sprintf("%s/return#%d", base, k)
		// (a value computed in a helper is n when it is n at every call of the helper)
		isN := func(v ssa.Value) bool {
			if v == nil {
				return false
			}
			rs := eng.ResolveAll(v)
			for _, r := range rs {
				if !eng.SameValue(r, n) {
					return false
				}
			}
			return len(rs) > 0
		}
		res := eng.Canon(r.Results[0])
		if rs := eng.ResolveNZ(r.Results[0]); len(rs) == 1 {
			res = eng.Canon(rs[0])
		}
		switch v := res.(type) {
		case *ssa.MakeSlice:
			c.R.Check(isN(v.Len), rule, con+"/length", c.pos(r), "make([]byte, n)", "alloc returns a fresh slice whose length is not n")
		case *ssa.Slice:
			high := v.High
			if high == nil {
				// chunk = chunk[:l+n]; return chunk[l:] - the window ends where the re-slice ends
				if outer, isS := eng.Canon(v.X).(*ssa.Slice); isS && eng.SliceLow(outer) == nil {
					high = outer.High
				}
			}
			switch {
			case eng.SliceLow(v) == nil:
				_, fresh := v.X.(*ssa.Alloc)
				c.R.Check(fresh && isN(v.High), rule, con+"/length", c.pos(r), "the first n bytes of a fresh chunk", "alloc returns a prefix of a chunk whose length is not n")
			default:
				okLen := high != nil && eng.IsSumOf(high, v.Low, n)
				c.R.Check(okLen, rule, con+"/length", c.pos(r), "bytes [l, l+n) of the last chunk", "alloc returns a window of the last chunk that is not [l, l+n)")
				// l is the chunk's old length
				lenCall, isLen := v.Low.(*ssa.Call)
				c.R.Check(isLen && c.P.CalleeName(lenCall) == "builtin:len", rule, con+"/starts-at-old-length", c.pos(r), "the window starts at the chunk's previous length (no overlap with earlier records)", "the window handed out does not start at the chunk's previous length: records overlap")
				// guarded by l+n <= cap
				guarded := false
				eng.Instrs(al, func(i2 ssa.Instruction) {
					iff, ok := i2.(*ssa.If)
					if !ok {
						return
					}
					small, big, whenTrue, ok := eng.Leq(iff.Cond)
					if !ok {
						return
					}
					capCall, isCap := big.(*ssa.Call)
					_, isSum := eng.SumWith(small, n)
					if isCap && c.P.CalleeName(capCall) == "builtin:cap" && isSum {
						t := iff.Block().Succs[0]
						if !whenTrue {
							t = iff.Block().Succs[1]
						}
						if t == r.Block() || t.Dominates(r.Block()) {
							guarded = true
						}
						// the window may be cut in a helper: then the guard stands before the cut
						if t.Parent() == v.Parent() && (t == v.Block() || t.Dominates(v.Block())) {
							guarded = true
						}
					}
				})
				c.R.Check(guarded, rule, con+"/fits", c.pos(r), "only when l+n <= cap(chunk)", "the last chunk is extended without the l+n <= cap test: the re-slice panics or spills")
			}
		default:
			c.R.Undecided(rule, con+"/length", c.pos(r), "alloc returns a value of a shape this rule does not interpret")
		}
		// registered in b.chunks on this path
		ok2, _, _ := c.Precedes(al, nil, nil, func(i2 ssa.Instruction) bool {
			s, isS := i2.(*ssa.Store)
			if !isS {
				return false
			}
			if fa, isFA := s.Addr.(*ssa.FieldAddr); isFA && eng.FieldOwnerName(fa.X.Type(), fa.Field) == "fsutil.buffer.chunks" {
				return true
			}
			if ia, isIA := s.Addr.(*ssa.IndexAddr); isIA && isFieldLoad(ia.X, "fsutil.buffer.chunks") {
				return true
			}
			return false
		}, func(i2 ssa.Instruction) bool { return i2 == in })
		c.R.Check(ok2, rule, con+"/registered", c.pos(r), "the bytes handed out belong to b.chunks", "alloc hands out bytes that are not (yet) part of b.chunks: they are never written to the listing file")
	})
	c.R.Floor(rule, "returns of buffer.alloc", k, 3)
	// order: chunks are only appended, or the last one extended in place
	ne := 0
	eng.Instrs(al, func(in ssa.Instruction) {
		s, ok := in.(*ssa.Store)
		if !ok {
			return
		}
		switch a := s.Addr.(type) {
		case *ssa.IndexAddr:
			if !isFieldLoad(a.X, "fsutil.buffer.chunks") {
				return
			}
			ne++
			// index = len(b.chunks)-1 and the value is a re-slice of that very element
			isLast := func(idx ssa.Value) bool {
				if bo, isB := eng.Canon(idx).(*ssa.BinOp); isB && bo.Op == token.SUB {
					if k1, isK := eng.ConstInt(bo.Y); isK && k1 == 1 {
						if lc, isL := bo.X.(*ssa.Call); isL && c.P.CalleeName(lc) == "builtin:len" && isFieldLoad(lc.Call.Args[0], "fsutil.buffer.chunks") {
							return true
						}
					}
				}
				return false
			}
			idxOK := isLast(a.Index)
			// (the element extended is the last one too: a window cut from
			// another chunk's slack and stored over the last slot duplicates
			// that chunk and drops the last one)
			valOK := false
			if sl, isS := s.Val.(*ssa.Slice); isS && eng.SliceLow(sl) == nil {
				if ld, isL := sl.X.(*ssa.UnOp); isL && ld.Op == token.MUL {
					if ia2, isIA := ld.X.(*ssa.IndexAddr); isIA && isFieldLoad(ia2.X, "fsutil.buffer.chunks") && isLast(ia2.Index) {
						valOK = true
					}
				}
			}
			c.R.Check(idxOK && valOK, rule, fmt.Sprintf("%s/element-store#%d", base, ne), c.pos(s), "the last chunk is extended in place", "an element of b.chunks is overwritten with something other than an extension of the last chunk (read from and written to slot len-1): chunks are reordered, duplicated or replaced, so the listing is not in stream order")
		case *ssa.FieldAddr:
			if eng.FieldOwnerName(a.X.Type(), a.Field) != "fsutil.buffer.chunks" {
				return
			}
			ap, isCall := s.Val.(*ssa.Call)
			okA := isCall && c.P.CalleeName(ap) == "builtin:append" && isFieldLoad(ap.Call.Args[0], "fsutil.buffer.chunks")
			c.R.Check(okA, rule, fmt.Sprintf("%s/chunks-assign@%s", base, blockName(s)), c.pos(s), "b.chunks = append(b.chunks, new chunk)", "b.chunks is re-assigned other than by appending a new chunk at the end")
		}
	})
	c.R.Floor(rule, "in-place extensions of the last chunk", ne, 1)
	// a fresh chunk has room for what is put into it: every make([]byte, n, K)
	// with a constant capacity K is reached only for n <= K - the requests that
	// get a slice of their own are those above a threshold that is not above K
	// (a guard of 32 KiB with chunks of 4 KiB makes `make` panic for every
	// record in between)
	eng.Instrs(al, func(in ssa.Instruction) {
		// (with a constant capacity go/ssa builds the slice as new [K]byte
		// cut to [:n]; a variable capacity stays a MakeSlice)
		var mk ssa.Instruction
		var capK int64
		switch v := in.(type) {
		case *ssa.MakeSlice:
			k, isK := eng.ConstInt(v.Cap)
			if !isK || !eng.SameValue(eng.Canon(v.Len), eng.Canon(n)) {
				return
			}
			mk, capK = v, k
		case *ssa.Slice:
			al2, isA := v.X.(*ssa.Alloc)
			if !isA || v.High == nil || !eng.SameValue(eng.Canon(v.High), eng.Canon(n)) {
				return
			}
			pt, isP := al2.Type().Underlying().(*types.Pointer)
			if !isP {
				return
			}
			at, isArr := pt.Elem().Underlying().(*types.Array)
			if !isArr {
				return
			}
			mk, capK = v, at.Len()
		default:
			return
		}
		// the oversize guards: comparisons of n with a constant
		guarded := false
		eng.InstrsShallow(al, func(i2 ssa.Instruction) {
			iff, isIf := i2.(*ssa.If)
			if !isIf {
				return
			}
			b, isB := iff.Cond.(*ssa.BinOp)
			if !isB || !eng.SameValue(eng.Canon(b.X), eng.Canon(n)) {
				return
			}
			k, isC := eng.ConstInt(b.Y)
			if !isC {
				return
			}
			// the edge on which n <= k holds
			var edge int
			switch b.Op {
			case token.GTR: // n > k: false edge
				edge = 1
			case token.LEQ: // n <= k: true edge
				edge = 0
			case token.GEQ: // n >= k: false edge means n < k
				edge, k = 1, k-1
			case token.LSS: // n < k: true edge
				edge, k = 0, k-1
			default:
				return
			}
			t := iff.Block().Succs[edge]
			// (the chunk may be made in a helper: then the guard stands
			// before the call of the helper)
			for _, site := range eng.LiftTo(al, mk) {
				if k <= capK && len(t.Preds) == 1 && (t == site.Block() || t.Dominates(site.Block())) {
					guarded = true
				}
			}
		})
		c.R.Check(guarded, rule, fmt.Sprintf("%s/fresh-chunk-fits@%s", base, blockName(mk)), c.pos(mk), fmt.Sprintf("make([]byte, n, %d) only for n <= %d", capK, capK), fmt.Sprintf("a fresh chunk is made with capacity %d for requests that are not known to be that small (the oversize threshold is larger than the chunk): make panics with len > cap and no listing is written", capK))
	})
	wt := c.Fn(rule, "fsutil.(*buffer).WriteTo")
	if wt != nil {
		calls := c.P.CallsTo(wt, "(io.Writer).Write")
		c.R.Exact(rule, "Write calls in buffer.WriteTo", len(calls), 1)
		for _, call := range calls {
			c.R.Check(eng.InCycle(call.Block()), rule, c.siteName(call)+"/each-chunk", c.pos(call), "called for every chunk", "WriteTo does not write every chunk")
			c.ObErrChecked(rule+"/checked", call)
			ok := c.DerivesFrom(call.Common().Args[0], func(v ssa.Value) bool { return isFieldLoad(v, "fsutil.buffer.chunks") }, 4)
			c.R.Check(ok, rule, c.siteName(call)+"/chunk", c.pos(call), "writes the chunk", "WriteTo does not write the chunks of the buffer")
		}
	}
}
