package props

import (
	"fmt"
	"go/token"
	"go/types"
	"strings"

	"fsverif/eng"

	"golang.org/x/tools/go/ssa"
)

func init() {
	register("C08", "Structural clauses behind schedule independence, decided on all paths: every SendMsg of the transfer goes through the mutex-holding wrapper (field provenance + lockset), all RecvMsg sites of an end sit in one goroutine started once, the shared maps/counters are only touched with their mutex held (must-hold lockset), writer results are published before the channel that signals them is closed, and every struct field mutated after construction is classified (lock / publish / confined / reasoned). What the decoder stores in a message never aliases its input (the transport buffer the next RecvMsg refills while other goroutines still read the previous stat): Unmarshal delegates to the copying UnmarshalVT and UnmarshalVTUnsafe has no caller. The ids both ends key their maps by decode exactly: every varint loop of the generated decoders masks with 0x7F, steps by 7, refuses a shift of 64 and ends below 0x80 (shared with C20). Every message sent is a packet allocated for that send, never one kept in a field and shared between the file workers. Does not decide absence of data races in general nor equality of outcomes across schedules.", runC08)
}

// lockTable: (struct, field) -> mutex field, frozen from the code (DESIGN R08.3).
var lockTable = []struct{ typ, field, mutex string }{
	{"sender", "files", "mu"},
	{"receiver", "files", "mu"},
	{"receiver", "pipes", "muPipes"},
	{"sender", "progressCurrent", "progressCurrentMu"},
}

func runC08(c *Ctx) {
	r08_1(c, "R08.1")
	r08_2(c, "R08.2")
	r08_3(c, "R08.3")
	r08_4(c, "R08.4")
	r08_5(c, "R08.5")
	// R08.6 (reused receive buffer) is R07.5, evaluated here as well because
	// the property names types ResetVT explicitly.
	r07_5(c, "R08.6")
	// publish before announce: the pipe an answer will be routed to exists
	// before the request that can trigger the answer is sent (shared with C07);
	// likewise the sender registers an id before the STAT that announces it
	r07_3(c, "R08.7")
	r06_1(c, "R08.8")
	r08_9(c, "R08.9")
	// the outcome must not depend on the schedule: the goroutine that forwards
	// STATs to the writer never waits on a context-free primitive such as a
	// limited writer group (shared with C04/C07)
	r04_11(c, "R08.10")
	// "a buffer reused before it is consumed": what the decoder stores in a
	// message never aliases the transport's receive buffer, which the next
	// RecvMsg refills while the diff and writer goroutines still read the
	// previous stat (shared with C20)
	r20_2(c, "R08.11")
	// the ids both ends key their maps by are the ids sent: varint decoding
	// of the packet header is exact (shared with C20)
	r20_7(c, "R08.12")
	r08_13(c, "R08.13")
}

// R08.13: a message belongs to the send it was built for.
//
// The stream's SendMsg is serialised by syncStream, but what it is handed is
// read inside the lock and written outside of it: a packet kept in a field and
// re-used by the four file workers ("only the ID differs") is overwritten by
// the next worker before the first got the lock. Every message the transfer
// code sends is a packet allocated for that send, in the sending function or
// in a helper it calls - never one loaded from a field, a captured variable
// or a package variable.
func r08_13(c *Ctx, rule string) {
	c.R.Rule(rule, "every SendMsg of package fsutil (the serialising wrapper's own forwarding excepted) is handed a packet allocated for that send, not one kept in a field, captured variable or global and shared between sends")
	n := 0
	for _, fn := range transferFuncs(c, "fsutil") {
		eng.InstrsShallow(fn, func(in ssa.Instruction) {
			if !c.P.IsCallTo(in, "(fsutil.Stream).SendMsg", "fsutil.(*syncStream).SendMsg") {
				return
			}
			call := in.(ssa.CallInstruction)
			args := call.Common().Args
			if len(args) == 0 {
				return
			}
			raw := args[len(args)-1]
			// the wrapper forwards what it was given
			if q, isP := eng.Strip(raw).(*ssa.Parameter); isP && q.Parent() == fn && !c.P.Transparent(fn) {
				return
			}
			n++
			_, fresh := c.packetOf(call)
			if !fresh {
				// a helper that sends what its callers built: each of them
				if rs := eng.ResolveAll(eng.Strip(raw)); len(rs) > 1 {
					fresh = true
					for _, r := range rs {
						al, isA := eng.Strip(r).(*ssa.Alloc)
						if !isA || !strings.HasSuffix(types.TypeString(al.Type(), nil), "types.Packet") {
							fresh = false
						}
					}
				}
			}
			c.R.Check(fresh, rule, c.siteName(call)+"/fresh-message", c.pos(call), "sends a packet allocated for this send", "the message sent here is not a packet allocated for this send (it is kept in a field, a captured variable or a global and re-used): concurrent senders overwrite it between filling it in and the locked write, so one id is sent twice and another never")
		})
	}
	c.R.Floor(rule, "SendMsg sites in package fsutil", n, 1)
}

// R08.1: all sends are serialised.
func r08_1(c *Ctx, rule string) {
	c.R.Rule(rule, "every SendMsg of a transfer goes through syncStream, whose only raw SendMsg sits between Lock and Unlock of its mutex")
	for _, end := range []struct{ typ, ctor string }{{"sender", "fsutil.Send"}, {"receiver", "fsutil.Receive"}} {
		fv := c.P.StructField("fsutil", end.typ, "conn")
		if fv == nil {
			c.R.Missing(rule, "field "+end.typ+".conn")
			continue
		}
		// (a) every store to the field (constructor included) stores a *syncStream
		n := 0
		for _, fa := range c.P.Census().FieldAddrs(fv) {
			for _, ref := range eng.Referrers(fa) {
				s, ok := ref.(*ssa.Store)
				if !ok || s.Addr != fa {
					continue
				}
				n++
				t := types.TypeString(eng.Strip(s.Val).Type(), nil)
				c.R.Check(strings.HasSuffix(t, "fsutil.syncStream") && strings.HasPrefix(t, "*"), rule,
					fmt.Sprintf("%s.conn/store#%d in %s", end.typ, n, c.name(s.Parent())), c.pos(s),
					"the stream stored is a *syncStream", "the stream stored in "+end.typ+".conn is a "+t+", not the locking wrapper: concurrent SendMsg calls reach the raw stream")
			}
		}
		c.R.Floor(rule, "stores to "+end.typ+".conn", n, 1)
		// (b) the raw conn parameter flows only into syncStream.Stream
		ctor := c.Fn(rule, end.ctor)
		if ctor == nil {
			continue
		}
		var connParam *ssa.Parameter
		for _, p := range ctor.Params {
			if strings.HasSuffix(types.TypeString(p.Type(), nil), "fsutil.Stream") {
				connParam = p
			}
		}
		if connParam == nil {
			c.R.Missing(rule, "Stream parameter of "+end.ctor)
			continue
		}
		uses := 0
		// uses of the parameter, followed into transparent helpers it is handed to (a constructor split off)
		var refs []ssa.Instruction
		var follow func(v ssa.Value, d int)
		follow = func(v ssa.Value, d int) {
			for _, ref := range eng.Referrers(v) {
				if call, isCall := ref.(*ssa.Call); isCall && d < 4 {
					if callee := call.Call.StaticCallee(); callee != nil && c.P.Transparent(callee) && !call.Call.IsInvoke() {
						handed := false
						for i, a := range call.Call.Args {
							if a == v && i < len(callee.Params) {
								follow(callee.Params[i], d+1)
								handed = true
							}
						}
						if handed {
							continue
						}
					}
				}
				refs = append(refs, ref)
			}
		}
		follow(connParam, 0)
		for _, ref := range refs {
			uses++
			ok := false
			if s, isStore := ref.(*ssa.Store); isStore && eng.Resolve(s.Val) == ssa.Value(connParam) {
				if fa, isFA := s.Addr.(*ssa.FieldAddr); isFA && eng.FieldOwnerName(fa.X.Type(), fa.Field) == "fsutil.syncStream.Stream" {
					ok = true
				}
			}
			c.R.Check(ok, rule, fmt.Sprintf("%s/raw-conn-use#%d", end.ctor, uses), c.pos(ref),
				"the raw stream is only wrapped", "the raw stream parameter is used outside the syncStream wrapper")
		}
		c.R.Floor(rule, "uses of the raw stream in "+end.ctor, uses, 1)
	}
	// (c) every SendMsg invoke site in package fsutil
	total, raw := 0, 0
	for _, fn := range c.P.ModFuncs {
		if fnPkgShort(c, fn) != "fsutil" || c.P.IsTestFile(fn.Pos()) {
			continue
		}
		for _, call := range c.P.CallsTo(fn, "(fsutil.Stream).SendMsg") {
			total++
			c.R.CallSites++
			recv := call.Common().Value
			owner, _, _, isField := eng.LoadedField(recv)
			con := c.siteName(call)
			if !isField {
				// a helper that is handed the stream: every stream it is handed
				all := eng.ResolveAll(recv)
				okAll := len(all) > 0
				for _, r := range all {
					o, _, _, f := eng.LoadedFieldRaw(r)
					if !f || (o != "fsutil.sender.conn" && o != "fsutil.receiver.conn") {
						okAll = false
					}
				}
				if okAll {
					c.R.OK(rule, con, c.pos(call), "SendMsg on a stream parameter that is only ever sender.conn / receiver.conn")
					continue
				}
			}
			switch {
			case isField && (owner == "fsutil.sender.conn" || owner == "fsutil.receiver.conn"):
				c.R.OK(rule, con, c.pos(call), "SendMsg on "+owner+", which only ever holds a *syncStream")
			case isField && owner == "fsutil.syncStream.Stream":
				raw++
				mu := c.P.StructField("fsutil", "syncStream", "mu")
				la := c.P.LockAnalysis(fn)
				held := la.Held(call)
				c.R.Check(mu != nil && held[eng.LockID(mu)], rule, con, c.pos(call),
					"the raw SendMsg runs with syncStream.mu held", "the raw SendMsg in "+c.name(fn)+" runs without syncStream.mu held on some path")
				ex := la.HeldAtExit()
				c.R.Check(len(ex) == 0, rule, c.name(fn)+"/lock-holding-exit", c.P.Pos(fn.Pos()),
					"no return leaves the mutex locked", "a return of "+c.name(fn)+" leaves the mutex locked")
			default:
				c.R.Fail(rule, con, c.pos(call), "SendMsg on a stream that is not sender.conn / receiver.conn / the wrapper's inner stream ("+c.P.DescribeFuncValue(recv)+"): not provably serialised")
			}
		}
	}
	c.R.Floor(rule, "SendMsg invoke sites in package fsutil", total, 10)
	c.R.Exact(rule, "raw SendMsg sites (inside syncStream)", raw, 1)
}

func fnPkgShort(c *Ctx, fn *ssa.Function) string {
	n := c.P.FnName(fn)
	if i := strings.Index(n, "."); i > 0 {
		return n[:i]
	}
	return n
}

// R08.2: one receive loop per end.
func r08_2(c *Ctx, rule string) {
	c.R.Rule(rule, "the RecvMsg sites of each end lie in one function literal started by exactly one errgroup.Go outside any loop")
	total := 0
	for _, end := range []string{"fsutil.(*sender).run", "fsutil.(*receiver).run"} {
		run := c.Fn(rule, end)
		if run == nil {
			continue
		}
		holders := map[*ssa.Function]int{}
		reach := c.P.CallGraph().Reachable(run)
		for fn := range reach {
			if fnPkgShort(c, fn) != "fsutil" || fn.Synthetic != "" {
				continue // promoted-method wrappers of the embedded Stream are not loops of their own
			}
			if c.P.Transparent(fn) {
				continue // a helper's sites are counted in each function that calls it
			}
			n := len(c.P.CallsTo(fn, "(fsutil.Stream).RecvMsg"))
			if n > 0 {
				holders[fn] += n
				total += n
			}
		}
		if len(holders) != 1 {
			var names []string
			for f := range holders {
				names = append(names, c.name(f))
			}
			c.R.Fail(rule, end+"/recv-holders", c.P.Pos(run.Pos()), fmt.Sprintf("RecvMsg is called from %d functions reachable from %s (%s): two receive loops may run concurrently", len(holders), end, strings.Join(names, ", ")))
			continue
		}
		for lit := range holders {
			c.R.Analysed(c.name(lit))
			if c.P.Encloser(lit) != run {
				c.R.Fail(rule, end+"/recv-holder", c.P.Pos(lit.Pos()), "the function holding RecvMsg ("+c.name(lit)+") is not a literal of "+end)
				continue
			}
			// exactly one MakeClosure of lit, passed to exactly one errgroup.Go, not in a cycle
			starts := 0
			okAll := true
			eng.Instrs(run, func(in ssa.Instruction) {
				mc, ok := in.(*ssa.MakeClosure)
				if !ok || c.P.ClosureFn(mc) != lit {
					return
				}
				for _, ref := range eng.Referrers(mc) {
					if c.P.IsCallTo(ref, "(*golang.org/x/sync/errgroup.Group).Go") {
						if _, isGo := ref.(*ssa.Go); isGo {
							okAll = false
						}
						starts++
						if eng.InCycle(ref.Block()) {
							okAll = false
							c.R.Fail(rule, end+"/recv-loop-start", c.pos(ref), "the receive loop is started inside a loop: several instances may call RecvMsg concurrently")
						}
					} else {
						okAll = false
						c.R.Fail(rule, end+"/recv-loop-use", c.pos(ref), "the receive loop literal is used other than as the argument of one errgroup.Go")
					}
				}
			})
			if starts != 1 {
				okAll = false
				c.R.Fail(rule, end+"/recv-loop-start", c.P.Pos(lit.Pos()), fmt.Sprintf("the receive loop literal is started %d times, expected exactly once", starts))
			}
			if okAll {
				c.R.OK(rule, end+"/recv-loop", c.P.Pos(lit.Pos()), fmt.Sprintf("%d RecvMsg site(s), all in %s, started by one errgroup.Go outside any loop", holders[lit], c.name(lit)))
			}
		}
	}
	c.R.Floor(rule, "RecvMsg invoke sites", total, 3)
}

// R08.3: lock table.
func r08_3(c *Ctx, rule string) {
	c.R.Rule(rule, "each shared map/counter is only accessed with its mutex held on every path (must-hold lockset); constructor literals exempt")
	analyses := map[*ssa.Function]*eng.Locks{}
	la := func(fn *ssa.Function) *eng.Locks {
		if a, ok := analyses[fn]; ok {
			return a
		}
		a := c.P.LockAnalysis(fn)
		analyses[fn] = a
		return a
	}
	for _, e := range lockTable {
		f := c.P.StructField("fsutil", e.typ, e.field)
		mu := c.P.StructField("fsutil", e.typ, e.mutex)
		if f == nil || mu == nil {
			c.R.Missing(rule, "field "+e.typ+"."+e.field+" / "+e.mutex)
			continue
		}
		n := 0
		perFn := map[string]int{}
		for _, acc := range c.P.FieldAccesses(f) {
			if acc.Fresh {
				continue
			}
			n++
			fnName := c.name(acc.Fn)
			c.R.Analysed(fnName)
			perFn[fnName]++
			con := fmt.Sprintf("%s.%s/access#%d in %s", e.typ, e.field, perFn[fnName], fnName)
			bad := ssa.Instruction(nil)
			for _, u := range acc.Uses {
				if !la(acc.Fn).Held(u)[eng.LockID(mu.Origin())] {
					bad = u
					break
				}
			}
			if bad != nil {
				c.R.Fail(rule, con, c.pos(bad), fmt.Sprintf("%s.%s is accessed without %s.%s held on some path", e.typ, e.field, e.typ, e.mutex))
			} else {
				c.R.OK(rule, con, c.pos(acc.Addr), fmt.Sprintf("accessed with %s.%s held", e.typ, e.mutex))
			}
		}
		c.R.Floor(rule, "accesses of "+e.typ+"."+e.field, n, 2)
		// no lock-holding exit in the functions that take the mutex
		for fn, a := range analyses {
			for id, rets := range a.HeldAtExit() {
				if id == eng.LockID(mu.Origin()) {
					c.R.Fail(rule, c.name(fn)+"/lock-holding-exit/"+e.mutex, c.pos(rets[0]), "a return leaves "+e.typ+"."+e.mutex+" locked")
				}
			}
		}
	}
	// package-level rand / randmu
	pk := c.P.SPkgs["fsutil"]
	if pk == nil {
		c.R.Missing(rule, "package fsutil")
		return
	}
	g, gm := c.P.Global("fsutil", "rand"), c.P.Global("fsutil", "randmu")
	if g == nil || gm == nil {
		c.R.Missing(rule, "package variables rand / randmu")
		return
	}
	n := 0
	for _, in := range c.P.GlobalAccesses(g) {
		n++
		fn := in.Parent()
		con := fmt.Sprintf("rand/access#%d in %s", n, c.name(fn))
		c.R.Check(la(fn).Held(in)[eng.LockID(gm)], rule, con, c.pos(in), "accessed with randmu held", "package variable rand accessed without randmu held")
	}
	c.R.Floor(rule, "accesses of package variable rand", n, 2)
}

// publishTable: field published through the close of a channel field.
var publishTable = []struct{ typ, field, ch string }{
	{"wrappedWriteCloser", "err", "done"},
	{"dynamicWalker", "err", "closeCh"},
}

// R08.9 (= R07.8): nothing blocks while a mutex of the transfer is held.
//
// The receive loop, the sender's request loop and the writer goroutines share
// the mutexes of sender/receiver. A goroutine that waits for its peer (stream
// send or receive, channel operation, Wait) while holding one of them stops
// every other goroutine that needs the mutex - among them the one whose
// progress the peer is waiting for.
func r08_9(c *Ctx, rule string) {
	c.R.Rule(rule, "no stream send/receive, channel operation, Wait, or call of a function that may do one of these is executed while a sender/receiver/DiskWriter mutex may be held (syncStream's own send mutex excepted: serialising sends is its purpose)")
	// functions that may block, transitively through static calls
	blockingOp := func(in ssa.Instruction) (string, bool) {
		switch x := in.(type) {
		case *ssa.Send:
			return "channel send", true
		case *ssa.UnOp:
			if x.Op == token.ARROW {
				return "channel receive", true
			}
		case *ssa.Select:
			if x.Blocking {
				return "select", true
			}
		case ssa.CallInstruction:
			if _, isGo := in.(*ssa.Go); isGo {
				return "", false
			}
			if _, isDefer := in.(*ssa.Defer); isDefer {
				return "", false
			}
			switch n := c.P.CalleeName(x); n {
			case "(fsutil.Stream).SendMsg", "(fsutil.Stream).RecvMsg", "fsutil.(*syncStream).SendMsg", "fsutil.(*wrappedWriteCloser).Wait",
				"(*golang.org/x/sync/errgroup.Group).Wait", "(*sync.WaitGroup).Wait", "fsutil.(*DiskWriter).Wait":
				return n, true
			}
		}
		return "", false
	}
	var fns []*ssa.Function
	for _, fn := range c.P.ModFuncs {
		if fnPkgShort(c, fn) == "fsutil" && !c.P.IsTestFile(fn.Pos()) {
			fns = append(fns, fn)
		}
	}
	blocks := map[*ssa.Function]string{}
	for _, fn := range fns {
		eng.InstrsShallow(fn, func(in ssa.Instruction) {
			if what, ok := blockingOp(in); ok && blocks[fn] == "" {
				blocks[fn] = what
			}
		})
	}
	for _, fn := range c.P.AllModFuncs() { // helpers too
		if _, ok := blocks[fn]; ok || fnPkgShort(c, fn) != "fsutil" {
			continue
		}
		eng.InstrsShallow(fn, func(in ssa.Instruction) {
			if what, ok := blockingOp(in); ok && blocks[fn] == "" {
				blocks[fn] = what
			}
		})
	}
	for changed := true; changed; {
		changed = false
		for _, fn := range c.P.AllModFuncs() {
			if blocks[fn] != "" || fnPkgShort(c, fn) != "fsutil" {
				continue
			}
			eng.InstrsShallow(fn, func(in ssa.Instruction) {
				if cl, ok := in.(*ssa.Call); ok && blocks[fn] == "" {
					if callee := cl.Call.StaticCallee(); callee != nil && blocks[callee] != "" {
						blocks[fn] = "calls " + c.name(callee) + " (" + blocks[callee] + ")"
						changed = true
					}
				}
			})
		}
	}
	sites, held := 0, 0
	for _, fn := range c.P.AllModFuncs() {
		if fnPkgShort(c, fn) != "fsutil" || c.P.IsTestFile(fn.Pos()) {
			continue
		}
		var la *eng.Locks
		eng.InstrsShallow(fn, func(in ssa.Instruction) {
			what, ok := blockingOp(in)
			if !ok {
				if cl, isCall := in.(*ssa.Call); isCall {
					if callee := cl.Call.StaticCallee(); callee != nil && blocks[callee] != "" {
						what, ok = "call of "+c.name(callee)+", which may block ("+blocks[callee]+")", true
					}
				}
			}
			if !ok {
				return
			}
			sites++
			if la == nil {
				la = c.P.MayLockAnalysis(fn)
			}
			var names []string
			for id := range la.Held(in) {
				if v, isVar := id.(*types.Var); isVar {
					if eng.CanonField("fsutil.syncStream", v.Name()) == "mu" && c.name(fn) == "fsutil.(*syncStream).SendMsg" {
						continue // the send mutex of the stream wrapper
					}
					names = append(names, v.Name())
				} else {
					names = append(names, fmt.Sprint(id))
				}
			}
			if len(names) > 0 {
				held++
				c.R.Fail(rule, c.siteName(in)+"/blocks-with-mutex-held", c.pos(in), fmt.Sprintf("%s may execute while %s is held: every goroutine that needs the mutex (the receive loop for each DATA packet, the request loop, the writers) stops until the peer makes progress - which may itself depend on them", what, strings.Join(sortedStrings(names), ", ")))
			}
		})
	}
	c.R.Floor(rule, "blocking sites in package fsutil", sites, 25)
	if held == 0 {
		c.R.OK(rule, "fsutil/no-blocking-under-mutex", "-", fmt.Sprintf("%d blocking sites, none reachable with a mutex held", sites))
	}
}

// R08.4: publish before close.
func r08_4(c *Ctx, rule string) {
	c.R.Rule(rule, "a result field is stored before the channel that announces it is closed, and read elsewhere only after a receive on that channel")
	for _, e := range publishTable {
		f := c.P.StructField("fsutil", e.typ, e.field)
		ch := c.P.StructField("fsutil", e.typ, e.ch)
		if f == nil || ch == nil {
			c.R.Missing(rule, "field "+e.typ+"."+e.field+" / "+e.ch)
			continue
		}
		chOwner := "fsutil." + e.typ + "." + e.ch
		fOwner := "fsutil." + e.typ + "." + e.field
		// close sites of the channel
		closes := 0
		storers := map[*ssa.Function]bool{}
		for _, fn := range c.P.ModFuncs {
			for _, s := range fieldStoresIn(fn, fOwner) {
				if !eng.Dominates(s, s) { // always false; keeps s used
				}
				storers[fn] = true
			}
		}
		for _, fn := range c.P.ModFuncs {
			fn := fn
			for _, cl := range c.P.CallsTo(fn, "builtin:close") {
				if c.P.ChanDesc(cl.Common().Args[0]) != "field:"+chOwner {
					continue
				}
				closes++
				con := fmt.Sprintf("%s.%s/close#%d in %s", e.typ, e.ch, closes, c.name(fn))
				c.R.Analysed(c.name(fn))
				// a store to the field must dominate the close: in this
				// function, or - when the close sits in a literal handed to
				// sync.Once.Do - dominate that Do call in the parent.
				ok := false
				for _, s := range fieldStoresIn(fn, fOwner) {
					if eng.Dominates(s, cl) {
						ok = true
					}
				}
				if !ok {
					// the close sits in a literal or method handed to
					// sync.Once.Do: the store must dominate every such Do
					nDo, good := 0, 0
					for _, par := range c.P.ModFuncs {
						par := par
						for _, in := range c.P.CallsTo(par, "(*sync.Once).Do") {
							a := in.Common().Args
							mc, isMC := a[len(a)-1].(*ssa.MakeClosure)
							if !isMC {
								continue
							}
							if mc.Fn != ssa.Value(fn) && c.P.ClosureFn(mc) != fn && c.P.DescribeFuncValue(mc) != c.name(fn) {
								continue
							}
							nDo++
							for _, s := range fieldStoresIn(par, fOwner) {
								if eng.Dominates(s, in) {
									good++
									storers[par] = true
									break
								}
							}
						}
					}
					ok = nDo > 0 && good == nDo
				}
				c.R.Check(ok, rule, con, c.pos(cl), "the result is stored on every path before the channel is closed",
					"close("+e.typ+"."+e.ch+") is not dominated by the store of "+e.typ+"."+e.field+": a waiter can read a stale result")
			}
		}
		c.R.Floor(rule, "close sites of "+e.typ+"."+e.ch, closes, 1)
		// every failing exit of a function that announces failure through the
		// channel does announce it: a return of a non-nil result is preceded
		// by the close (a waiter parked on the channel is woken on every exit)
		for _, fn := range c.P.ModFuncs {
			fn := fn
			if len(c.P.CallsTo(fn, "builtin:close")) == 0 || fn.Signature.Results().Len() != 1 {
				continue
			}
			owns := false
			for _, cl := range c.P.CallsTo(fn, "builtin:close") {
				if c.P.ChanDesc(cl.Common().Args[0]) == "field:"+chOwner {
					owns = true
				}
			}
			if !owns || len(fieldStoresIn(fn, fOwner)) == 0 {
				continue
			}
			if types.TypeString(fn.Signature.Results().At(0).Type(), nil) != "error" {
				continue
			}
			ex := c.explorer(fn)
			ex.Barrier = func(in ssa.Instruction, st *eng.State) bool {
				return c.P.IsCallTo(in, "builtin:close") && c.P.ChanDesc(in.(ssa.CallInstruction).Common().Args[0]) == "field:"+chOwner
			}
			ex.Target = func(in ssa.Instruction, st *eng.State) bool {
				r, ok := in.(*ssa.Return)
				if !ok || len(r.Results) != 1 {
					return false
				}
				return !ex.IsNil(r.Results[0], st)
			}
			ex.StopAtTarget = true
			h := ex.Run()
			c.R.Check(len(h) == 0 && !ex.Exhausted, rule, fmt.Sprintf("%s.%s/every-failing-exit-announces in %s", e.typ, e.ch, c.name(fn)), c.P.Pos(fn.Pos()),
				"every return of a (possibly) non-nil error is preceded by the close of the announcing channel",
				c.name(fn)+" can return an error without having closed "+e.typ+"."+e.ch+": a goroutine waiting on that channel (parked in a send on the full queue) is never woken")
		}
		// reads of the field outside the storing functions
		reads := 0
		for _, fn := range c.P.ModFuncs {
			if storers[fn] {
				continue
			}
			for _, ld := range fieldLoadsIn(fn, fOwner) {
				reads++
				in := ld.(ssa.Instruction)
				con := fmt.Sprintf("%s.%s/read#%d in %s", e.typ, e.field, reads, c.name(fn))
				c.R.Analysed(c.name(fn))
				// (a read inside a helper is judged at each call of the helper in fn)
				lifted := eng.LiftTo(fn, in)
				ok := len(lifted) > 0
				for _, li := range lifted {
					li := li
					okHere := false
					eng.InstrsShallow(fn, func(x ssa.Instruction) {
						sel, isSel := x.(*ssa.Select)
						if !isSel {
							return
						}
						for k, st := range sel.States {
							if st.Dir == types.RecvOnly && c.P.ChanDesc(st.Chan) == "field:"+chOwner {
								if arm := eng.SelectArm(sel, k); arm != nil && (arm == li.Block() || arm.Dominates(li.Block())) {
									okHere = true
								}
							}
						}
					})
					eng.Instrs(fn, func(x ssa.Instruction) {
						if u, isU := x.(*ssa.UnOp); isU && u.Op == token.ARROW && c.P.ChanDesc(u.X) == "field:"+chOwner && eng.Dominates(u, li) {
							okHere = true
						}
					})
					if !okHere {
						ok = false
					}
				}
				c.R.Check(ok, rule, con, c.pos(in), "read only in the arm that received from the announcing channel",
					e.typ+"."+e.field+" is read without first receiving from "+e.typ+"."+e.ch)
			}
		}
		c.R.Floor(rule, "reads of "+e.typ+"."+e.field+" outside its writers", reads, 1)
	}
}

// sharedStructs: structs shared between goroutines of a transfer.
var sharedStructs = []string{"sender", "receiver", "DiskWriter", "dynamicWalker", "wrappedWriteCloser", "hashedWriter", "lazyFileWriter"}

// sharedFieldTable: classification of every field that is mutated after
// construction. kind: lock (R08.3), publish (R08.4), confined (all accesses
// in the listed functions, each of which runs in one goroutine), reasoned.
var sharedFieldTable = map[string]struct {
	kind   string
	funcs  []string
	reason string
}{
	"sender.files":             {kind: "lock"},
	"sender.progressCurrent":   {kind: "lock"},
	"sender.mu":                {kind: "mutex"},
	"sender.progressCurrentMu": {kind: "mutex"},
	"receiver.files":           {kind: "lock"},
	"receiver.pipes":           {kind: "lock"},
	"receiver.mu":              {kind: "mutex"},
	"receiver.muPipes":         {kind: "mutex"},
	"receiver.orderValidator":  {kind: "confined", reason: "validator state is only touched by the receive loop"},
	"receiver.hlValidator":     {kind: "confined", reason: "validator state is only touched by the receive loop"},
	"dynamicWalker.err":        {kind: "publish"},
	"wrappedWriteCloser.err":   {kind: "publish"},
	"wrappedWriteCloser.once":  {kind: "mutex"},
	"DiskWriter.dirModTimes":   {kind: "reasoned", funcs: []string{"fsutil.(*DiskWriter).HandleChange", "fsutil.(*DiskWriter).Wait", "fsutil.(*DiskWriter).Wait$1"}, reason: "written by the diff goroutine only (HandleChange); read in Wait (the field holds the map created by the constructor; its contents are read by the walk callback) after that goroutine's doubleWalkDiff returned (R04.5 orders Wait after the diff)"},
	"hashedWriter.dgst":        {kind: "reasoned", funcs: []string{"fsutil.(*hashedWriter).Close", "fsutil.(*hashedWriter).Digest"}, reason: "written in Close, which runs before close(done) (R08.4); Digest is read by the notify callback after Wait observed done"},
	"lazyFileWriter.f":         {kind: "reasoned", funcs: []string{"fsutil.(*lazyFileWriter).Write", "fsutil.(*lazyFileWriter).Close"}, reason: "Write and Close of one pipe are only called from the single receive loop (R08.2, R07.5)"},
	"lazyFileWriter.fileMode":  {kind: "reasoned", funcs: []string{"fsutil.(*lazyFileWriter).Write", "fsutil.(*lazyFileWriter).Close"}, reason: "as lazyFileWriter.f"},
	"syncStream.mu":            {kind: "mutex"},
}

// R08.5: shared-state census.
func r08_5(c *Ctx, rule string) {
	c.R.Rule(rule, "every field of the transfer's shared structs that is written after construction is classified: lock table, publish table, confined to listed functions, or reasoned")
	cen := c.P.Census()
	mutated := 0
	for _, typ := range sharedStructs {
		fields := c.P.StructFields("fsutil", typ)
		if fields == nil {
			c.R.Missing(rule, "struct "+typ)
			continue
		}
		for _, f := range fields {
			name := typ + "." + eng.CanonField("fsutil."+typ, f.Name())
			muts := fieldMutations(c, f)
			if len(muts) == 0 && len(cen.FieldEscapes(f)) == 0 {
				continue
			}
			mutated++
			ent, ok := sharedFieldTable[name]
			if !ok {
				// a synchronisation primitive is safe for concurrent use whatever it is called
				switch types.TypeString(f.Type(), nil) {
				case "sync.Mutex", "sync.RWMutex", "sync.Once", "sync.WaitGroup", "sync/atomic.Int64", "sync/atomic.Int32", "sync/atomic.Uint64", "sync/atomic.Uint32", "sync/atomic.Bool", "sync/atomic.Value":
					c.R.OK(rule, name, "-", "a "+types.TypeString(f.Type(), nil)+": safe for concurrent use")
					continue
				}
				// a new field next to fields whose sharing argument is "only these
				// functions touch it, and they run in one goroutine": the argument
				// covers the new field if it is touched by the same functions only
				var sib []string
				sibOK := false
				for tn, te := range sharedFieldTable {
					if strings.HasPrefix(tn, typ+".") && (te.kind == "reasoned" || te.kind == "confined") && len(te.funcs) > 0 {
						if sib == nil {
							sib, sibOK = te.funcs, true
						} else if strings.Join(sortedStrings(append([]string(nil), te.funcs...)), ",") != strings.Join(sortedStrings(append([]string(nil), sib...)), ",") {
							sibOK = false
						}
					}
				}
				if sibOK && len(cen.FieldEscapes(f)) == 0 {
					allowed := map[string]bool{}
					for _, a := range sib {
						allowed[a] = true
					}
					inside := true
					for _, fa := range cen.FieldAddrs(f) {
						if accIsFresh(fa) {
							continue
						}
						for _, top := range c.tops(fa) {
							if !allowed[c.name(top)] {
								inside = false
							}
						}
					}
					if inside {
						c.R.OK(rule, name, "-", "a new field touched only by "+strings.Join(sib, ", ")+", like every classified field of "+typ+": the same sharing argument applies")
						continue
					}
				}
				where := "-"
				if len(muts) > 0 {
					where = c.pos(muts[0])
				} else {
					where = c.pos(cen.FieldEscapes(f)[0])
				}
				c.R.Fail(rule, name+"/unclassified", where, "field "+name+" is written (or its address taken) after construction but is not in the shared-state table: a new unsynchronised shared field")
				continue
			}
			switch ent.kind {
			case "lock", "publish", "mutex":
				c.R.OK(rule, name, "-", "classified "+ent.kind+" (verified by R08.3 / R08.4)")
			case "confined", "reasoned":
				// all accesses must lie in the listed functions; for
				// "confined" with no list: in exactly one function.
				fns := map[string]bool{}
				for _, fa := range cen.FieldAddrs(f) {
					if !accIsFresh(fa) {
						for _, top := range c.tops(fa) {
							fns[c.name(top)] = true
						}
					}
				}
				okc := true
				if len(ent.funcs) == 0 {
					okc = len(fns) == 1
				} else {
					allowed := map[string]bool{}
					for _, a := range ent.funcs {
						allowed[a] = true
					}
					for fn := range fns {
						if !allowed[fn] {
							okc = false
						}
					}
				}
				var list []string
				for fn := range fns {
					list = append(list, fn)
				}
				c.R.Check(okc, rule, name, "-", "accessed only in "+strings.Join(sortedStrings(list), ", ")+": "+ent.reason,
					"field "+name+" is now accessed from "+strings.Join(sortedStrings(list), ", ")+", outside the functions the sharing argument was made for")
			}
		}
	}
	c.R.Floor(rule, "fields mutated after construction", mutated, 12)
}

func accIsFresh(fa *ssa.FieldAddr) bool {
	var a ssa.Value = fa
	for {
		switch x := a.(type) {
		case *ssa.FieldAddr:
			a = x.X
		case *ssa.IndexAddr:
			a = x.X
		case *ssa.Alloc:
			return x.Parent() == fa.Parent()
		default:
			return false
		}
	}
}

// fieldMutations: non-constructor stores to f plus map updates / deletes /
// appends through the loaded value.
func fieldMutations(c *Ctx, f *types.Var) []ssa.Instruction {
	var out []ssa.Instruction
	cen := c.P.Census()
	for _, s := range cen.FieldStores(f) {
		out = append(out, s)
	}
	for _, fa := range cen.FieldAddrs(f) {
		if accIsFresh(fa) {
			continue
		}
		for _, r := range eng.Referrers(fa) {
			ld, ok := r.(*ssa.UnOp)
			if !ok || ld.Op != token.MUL {
				continue
			}
			for _, r2 := range eng.Referrers(ld) {
				switch x := r2.(type) {
				case *ssa.MapUpdate:
					if x.Map == ssa.Value(ld) {
						out = append(out, x)
					}
				case *ssa.Call:
					if c.P.CalleeName(x) == "builtin:delete" {
						out = append(out, x)
					}
				}
			}
		}
	}
	return out
}

func sortedStrings(s []string) []string {
	out := append([]string(nil), s...)
	for i := 1; i < len(out); i++ {
		for j := i; j > 0 && out[j] < out[j-1]; j-- {
			out[j], out[j-1] = out[j-1], out[j]
		}
	}
	return out
}
