package props

import (
	"embed"
	"regexp"
)

//go:embed *.go
var ruleSources embed.FS

var knownRe = regexp.MustCompile(`"((?:fsutil|copy|types|util)\.[^"\s]+)"`)

// KnownNames extracts, from the rule sources themselves, every module function
// name a rule refers to. Functions outside this set are transparent helpers
// (see eng/transparent.go).
func KnownNames() map[string]bool {
	out := map[string]bool{}
	ents, _ := ruleSources.ReadDir(".")
	for _, e := range ents {
		b, err := ruleSources.ReadFile(e.Name())
		if err != nil {
			continue
		}
		for _, m := range knownRe.FindAllSubmatch(b, -1) {
			out[string(m[1])] = true
		}
	}
	return out
}
