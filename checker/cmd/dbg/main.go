package main

import (
	"fmt"
	"os"
	"sort"

	"fsverif/eng"
	"fsverif/props"

	"golang.org/x/tools/go/ssa"
)

func main() {
	repo := "/repo"
	if r := os.Getenv("REPO"); r != "" {
		repo = r
	}
	p, err := eng.Load(repo, "linux", "amd64", false)
	if err != nil {
		panic(err)
	}
	if os.Args[1] == "cp" {
		dbgCP(p)
		return
	}
	p.SetKnown(props.KnownNames())
	if os.Args[1] == "aliases" {
		for _, n := range eng.AliasNotes() {
			fmt.Println(n)
		}
		return
	}
	fmt.Println("transparent:", p.TransparentNames())
	fn := p.Fn(os.Args[1])
	if fn == nil {
		for _, f := range p.ModFuncs {
			fmt.Println(p.FnName(f))
		}
		return
	}
	x := &eng.Explorer{P: p, Fn: fn, MaxStates: 20000}
	x.Debug = map[int]map[string]bool{}
	x.Target = func(in ssa.Instruction, st *eng.State) bool { return false }
	x.Run()
	fmt.Println("states", x.States, "exhausted", x.Exhausted)
	var bs []int
	for b := range x.Debug {
		bs = append(bs, b)
	}
	sort.Slice(bs, func(i, j int) bool { return len(x.Debug[bs[i]]) > len(x.Debug[bs[j]]) })
	for i, b := range bs {
		if i > 3 {
			break
		}
		fmt.Println("block", b, "states", len(x.Debug[b]))
		k := 0
		for h := range x.Debug[b] {
			if len(h) > 1500 {
				h = h[:1500]
			}
			fmt.Println("   ", h)
			k++
			if k > 1 {
				break
			}
		}
	}
}
