package main

import (
	"fmt"
	"os"
	"sort"

	"fsverif/eng"
	"fsverif/props"

	"golang.org/x/tools/go/ssa"
)

func main() {
	repo := "/repo"
	if r := os.Getenv("REPO"); r != "" {
		repo = r
	}
	p, err := eng.Load(repo, "linux", "amd64", false)
	if err != nil {
		panic(err)
	}
	if os.Args[1] == "cp" {
		dbgCP(p)
		return
	}
	p.SetKnown(props.KnownNames())
	if os.Args[1] == "calls" {
		fn := p.Fn(os.Args[2])
		if fn == nil {
			fmt.Println("no such function")
			return
		}
		fmt.Println("closures:")
		for _, c := range eng.Closures(fn) {
			fmt.Println("  ", p.FnName(c), "<-", c.String())
		}
		for _, f := range append([]*ssa.Function{fn}, eng.Closures(fn)...) {
			eng.Instrs(f, func(in ssa.Instruction) {
				if c, ok := in.(ssa.CallInstruction); ok {
					fmt.Printf("%s: %s  [%s]\n", p.FnName(f), p.CalleeName(c), p.InstrPos(in))
					if u, ok := c.Common().Value.(*ssa.UnOp); ok {
						if fa, ok := u.X.(*ssa.FieldAddr); ok {
							fmt.Printf("      cell=%q obj=%q resolve=%v\n", p.CellID(fa), p.ObjID(fa.X), eng.ResolveAll(fa.X))
						}
					}
				}
			})
		}
		return
	}
	if os.Args[1] == "aliases" {
		for _, n := range eng.AliasNotes() {
			fmt.Println(n)
		}
		return
	}
	fmt.Println("transparent:", p.TransparentNames())
	fn := p.Fn(os.Args[1])
	if fn == nil {
		for _, f := range p.ModFuncs {
			fmt.Println(p.FnName(f))
		}
		return
	}
	x := &eng.Explorer{P: p, Fn: fn, MaxStates: 20000}
	x.Debug = map[int]map[string]bool{}
	x.Target = func(in ssa.Instruction, st *eng.State) bool { return false }
	x.Run()
	fmt.Println("states", x.States, "exhausted", x.Exhausted)
	var bs []int
	for b := range x.Debug {
		bs = append(bs, b)
	}
	sort.Slice(bs, func(i, j int) bool { return len(x.Debug[bs[i]]) > len(x.Debug[bs[j]]) })
	for i, b := range bs {
		if i > 3 {
			break
		}
		fmt.Println("block", b, "states", len(x.Debug[b]))
		k := 0
		for h := range x.Debug[b] {
			if len(h) > 1500 {
				h = h[:1500]
			}
			fmt.Println("   ", h)
			k++
			if k > 1 {
				break
			}
		}
	}
}
