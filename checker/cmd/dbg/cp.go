package main

import (
	"fmt"

	"fsverif/eng"

	"golang.org/x/tools/go/ssa"
)

func dbgCP(p *eng.Prog) {
	fn := p.Fn("fsutil.ComparePath")
	eng.Instrs(fn, func(in ssa.Instruction) {
		if bo, ok := in.(*ssa.BinOp); ok {
			k, ok2 := eng.ConstInt(bo.Y)
			fmt.Printf("%s | X=%T Y=%T const=%d,%v\n", bo.String(), bo.X, bo.Y, k, ok2)
		}
	})
}
