// Command mutate enumerates removal mutants of the module's non-test sources:
// one deleted statement, or one operand dropped from a && / || condition.
// For each it prints a record "id<TAB>file<TAB>startOffset<TAB>endOffset<TAB>replacement"
// so that a driver can apply it to a scratch copy. Development aid (finding
// clauses no rule asks about); not part of any check.
package main

import (
	"fmt"
	"go/ast"
	"go/parser"
	"go/token"
	"os"
	"path/filepath"
	"strings"
)

func main() {
	root := os.Args[1]
	mode := "remove"
	if len(os.Args) > 2 {
		mode = os.Args[2]
	}
	var files []string
	for _, dir := range []string{".", "copy", "util"} {
		ents, _ := os.ReadDir(filepath.Join(root, dir))
		for _, e := range ents {
			n := e.Name()
			if e.IsDir() || !strings.HasSuffix(n, ".go") || strings.HasSuffix(n, "_test.go") || strings.HasSuffix(n, ".pb.go") {
				continue
			}
			if strings.Contains(n, "_windows") || strings.Contains(n, "_darwin") || strings.Contains(n, "_freebsd") || strings.Contains(n, "_otherbsd") || strings.Contains(n, "nolinux") {
				continue
			}
			files = append(files, filepath.Join(dir, n))
		}
	}
	for _, rel := range files {
		fset := token.NewFileSet()
		src, _ := os.ReadFile(filepath.Join(root, rel))
		f, err := parser.ParseFile(fset, rel, src, parser.ParseComments)
		if err != nil {
			continue
		}
		off := func(p token.Pos) int { return fset.Position(p).Offset }
		n := 0
		emit := func(kind string, from, to token.Pos, repl string) {
			removal := kind == "del" || kind == "delif" || kind == "dropL" || kind == "dropR"
			if (mode == "modify") == removal || strings.ContainsAny(repl, "\n\t") {
				return
			}
			n++
			line := fset.Position(from).Line
			fmt.Printf("%s:%d:%s#%d\t%s\t%d\t%d\t%s\n", rel, line, kind, n, rel, off(from), off(to), repl)
		}
		ast.Inspect(f, func(nd ast.Node) bool {
			switch x := nd.(type) {
			case *ast.BlockStmt:
				for _, st := range x.List {
					switch s := st.(type) {
					case *ast.ExprStmt, *ast.IncDecStmt, *ast.DeferStmt, *ast.GoStmt:
						emit("del", s.Pos(), s.End(), "")
					case *ast.AssignStmt:
						if s.Tok == token.ASSIGN || s.Tok == token.ADD_ASSIGN || s.Tok == token.OR_ASSIGN || s.Tok == token.AND_NOT_ASSIGN {
							emit("del", s.Pos(), s.End(), "")
						}
					case *ast.IfStmt:
						// delete a whole guard that has no else and only returns/continues/breaks or assigns
						if s.Else == nil && s.Init == nil {
							emit("delif", s.Pos(), s.End(), "")
						}
					}
				}
			case *ast.BinaryExpr:
				if x.Op == token.LAND || x.Op == token.LOR {
					emit("dropL", x.Pos(), x.End(), string(src[off(x.Y.Pos()):off(x.Y.End())]))
					emit("dropR", x.Pos(), x.End(), string(src[off(x.X.Pos()):off(x.X.End())]))
					if mode == "modify" {
						other := "||"
						if x.Op == token.LOR {
							other = "&&"
						}
						emit("andor", x.OpPos, x.OpPos+2, other)
					}
				}
				if mode == "modify" {
					swap := map[token.Token]string{token.LSS: "<=", token.LEQ: "<", token.GTR: ">=", token.GEQ: ">", token.EQL: "!=", token.NEQ: "=="}
					if r, ok := swap[x.Op]; ok {
						emit("relop", x.OpPos, x.OpPos+token.Pos(len(x.Op.String())), r)
					}
				}
			case *ast.IfStmt:
				if mode == "modify" {
					c := string(src[off(x.Cond.Pos()):off(x.Cond.End())])
					emit("neg", x.Cond.Pos(), x.Cond.End(), "!("+c+")")
				}
			case *ast.CallExpr:
				if mode == "modify" && len(x.Args) >= 2 && len(x.Args) <= 5 && x.Ellipsis == token.NoPos {
					a0 := string(src[off(x.Args[0].Pos()):off(x.Args[0].End())])
					a1 := string(src[off(x.Args[1].Pos()):off(x.Args[1].End())])
					if a0 != a1 {
						emit("argswap", x.Args[0].Pos(), x.Args[1].End(), a1+", "+a0)
					}
				}
			case *ast.ReturnStmt:
				if mode == "modify" && len(x.Results) >= 1 {
					if id, ok := x.Results[len(x.Results)-1].(*ast.Ident); ok && (id.Name == "err" || strings.HasSuffix(id.Name, "Err")) {
						emit("retnil", id.Pos(), id.End(), "nil")
					}
				}
			}
			return true
		})
	}
}
