// Command mutate enumerates removal mutants of the module's non-test sources:
// one deleted statement, or one operand dropped from a && / || condition.
// For each it prints a record "id<TAB>file<TAB>startOffset<TAB>endOffset<TAB>replacement"
// so that a driver can apply it to a scratch copy. Development aid (finding
// clauses no rule asks about); not part of any check.
package main

import (
	"fmt"
	"go/ast"
	"go/parser"
	"go/token"
	"os"
	"path/filepath"
	"strings"
)

func main() {
	root := os.Args[1]
	var files []string
	for _, dir := range []string{".", "copy", "util"} {
		ents, _ := os.ReadDir(filepath.Join(root, dir))
		for _, e := range ents {
			n := e.Name()
			if e.IsDir() || !strings.HasSuffix(n, ".go") || strings.HasSuffix(n, "_test.go") || strings.HasSuffix(n, ".pb.go") {
				continue
			}
			if strings.Contains(n, "_windows") || strings.Contains(n, "_darwin") || strings.Contains(n, "_freebsd") || strings.Contains(n, "_otherbsd") || strings.Contains(n, "nolinux") {
				continue
			}
			files = append(files, filepath.Join(dir, n))
		}
	}
	for _, rel := range files {
		fset := token.NewFileSet()
		src, _ := os.ReadFile(filepath.Join(root, rel))
		f, err := parser.ParseFile(fset, rel, src, parser.ParseComments)
		if err != nil {
			continue
		}
		off := func(p token.Pos) int { return fset.Position(p).Offset }
		n := 0
		emit := func(kind string, from, to token.Pos, repl string) {
			n++
			line := fset.Position(from).Line
			fmt.Printf("%s:%d:%s#%d\t%s\t%d\t%d\t%s\n", rel, line, kind, n, rel, off(from), off(to), repl)
		}
		ast.Inspect(f, func(nd ast.Node) bool {
			switch x := nd.(type) {
			case *ast.BlockStmt:
				for _, st := range x.List {
					switch s := st.(type) {
					case *ast.ExprStmt, *ast.IncDecStmt, *ast.DeferStmt, *ast.GoStmt:
						emit("del", s.Pos(), s.End(), "")
					case *ast.AssignStmt:
						if s.Tok == token.ASSIGN || s.Tok == token.ADD_ASSIGN || s.Tok == token.OR_ASSIGN || s.Tok == token.AND_NOT_ASSIGN {
							emit("del", s.Pos(), s.End(), "")
						}
					case *ast.IfStmt:
						// delete a whole guard that has no else and only returns/continues/breaks or assigns
						if s.Else == nil && s.Init == nil {
							emit("delif", s.Pos(), s.End(), "")
						}
					}
				}
			case *ast.BinaryExpr:
				if x.Op == token.LAND || x.Op == token.LOR {
					emit("dropL", x.Pos(), x.End(), string(src[off(x.Y.Pos()):off(x.Y.End())]))
					emit("dropR", x.Pos(), x.End(), string(src[off(x.X.Pos()):off(x.X.End())]))
				}
			}
			return true
		})
	}
}
